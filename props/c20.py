"""C20 - damaged time-zone data is rejected with the documented error, promptly (DESIGN.md section 4, C20).

The 'disk' is a SimStream over the bytes of the two real database files with a fault plan applied (truncation at any
offset, or up to 4 byte edits: substitute / insert / delete). The workload is the one the property names: from_stream,
listing ids, building the provider, fetching zones. Every operation must return or raise the documented invalid-data
error, within a deterministic work budget and a memory limit.
"""

from __future__ import annotations

import json
import os
import random
import re
import sys
import traceback

from sim import bootstrap, simio
from sim.runner import derive_seed

PROP = "C20"
FILES_REL = ["pyoda_time/time_zones/Tzdb.nzd", "tests/test_data/Tzdb2013bFromNodaTime1.1.nzd"]
ALLOWED_ALWAYS = {"InvalidPyodaDataError"}
ALLOWED_PROVIDER = {"InvalidPyodaDataError", "InvalidDateTimeZoneSourceError"}
BUDGET_FACTOR = 20
BUDGET_SLACK = 100_000
MEM_HEADROOM = 1 << 30  # address space a run may add on top of what the forked child already maps
RSS_SLACK_KB = 192 * 1024

_FILES = None  # [bytes, bytes]
_LAYOUT = None  # per file: dict of structural regions (framing scanner over the intact bytes)
_CONTROL = None  # per file: measured on the intact file from the current tree (prepare())
_METER = None


# ---------------------------------------------------------------------------------------------------------------------
# intact files and their layout (pure function of the bytes; no library involved)


def files():
    global _FILES, _LAYOUT
    if _FILES is None:
        fs = []
        for rel in FILES_REL:
            p = os.path.join(bootstrap.REPO, rel)
            if not os.path.exists(p):
                raise bootstrap.HarnessError(f"database file missing: {p}")
            with open(p, "rb") as f:
                fs.append(f.read())
        _FILES = fs
        _LAYOUT = [_layout(d) for d in fs]
    return _FILES


def _layout(data):
    fields, zones, pool = simio.scan_zones(data)
    lay = {"fields": fields, "zones": zones, "n": len(data), "pool": pool, "pool_index": {p: i for i, p in reversed(list(enumerate(pool)))}}
    sp = [f for f in fields if f["id"] == 0]
    lay["pool_field"] = sp[0] if sp else None
    if sp:
        _, spans = simio.scan_string_pool(data, sp[0])
        lay["pool_spans"] = spans
    else:
        lay["pool_spans"] = []
    lay["zone_fields"] = [f for f in fields if f["id"] == 1]
    lay["idmap"] = simio.scan_id_map(data, fields, pool)
    lay["nested"] = simio.scan_nested_counts(data, fields)
    lay["other_fields"] = [f for f in fields if f["id"] not in (0, 1)]
    b = {0, 1, 2, 3, 4, len(data), len(data) - 1}
    for f in fields:
        for x in (f["start"], f["len_start"], f["data_start"], f["end"]):
            for d in (-2, -1, 0, 1, 2):
                if 0 <= x + d <= len(data):
                    b.add(x + d)
    lay["boundaries"] = sorted(b)
    return lay


# ---------------------------------------------------------------------------------------------------------------------
# generation


def _pick_offset(rng, lay):
    c = rng.random()
    fields = lay["fields"]
    if c < 0.04:
        return rng.randrange(0, 4), "header"
    if c < 0.10:
        return rng.choice(fields)["start"], "field-id"
    if c < 0.18:
        f = rng.choice(fields)
        return rng.randrange(f["len_start"], f["data_start"]), "field-length"
    if c < 0.30 and lay["pool_field"]:
        f = lay["pool_field"]
        cc = rng.random()
        if cc < 0.2:
            return f["data_start"] + rng.randrange(0, 3), "pool-count"
        s = rng.choice(lay["pool_spans"])
        if cc < 0.6:
            return s[0], "pool-strlen"
        return rng.randrange(s[0], s[1]), "pool-string"
    if c < 0.72:
        f = rng.choice(lay["zone_fields"])
        cc = rng.random()
        bs = f.get("body_start", f["data_start"])
        if cc < 0.12:
            return rng.randrange(f["data_start"], max(bs, f["data_start"] + 1)), "zone-name-index"
        if cc < 0.22:
            return min(bs, f["end"] - 1), "zone-type"
        if cc < 0.42:
            return min(bs + 1 + rng.randrange(0, 8), f["end"] - 1), "zone-head"
        if cc < 0.70:
            return max(f["end"] - 1 - rng.randrange(0, 24), f["data_start"]), "zone-tail"
        return rng.randrange(f["data_start"], f["end"]), "zone-body"
    if c < 0.90 and lay["other_fields"]:
        f = rng.choice(lay["other_fields"])
        if rng.random() < 0.3:
            return min(f["data_start"] + rng.randrange(0, 6), f["end"] - 1), "meta-head:%d" % f["id"]
        return rng.randrange(f["data_start"], max(f["end"], f["data_start"] + 1)), "meta-body:%d" % f["id"]
    return rng.randrange(0, lay["n"]), "uniform"


def _pick_byte(rng, old, data=None, off=0):
    c = rng.random()
    if data is not None and c < 0.22:
        # copy a neighbouring byte: makes a decoded field equal to one of its siblings (two rules with the same month,
        # two equal transitions, a count equal to a length ...), a class of damage boundary values never produce
        j = off + rng.choice([-1, 1]) * rng.randrange(1, 13)
        if 0 <= j < len(data):
            return data[j]
    if c < 0.45:
        v = rng.choice([0x00, 0x01, 0x02, 0x7F, 0x80, 0x81, 0xFF, 0xFE, 0xC0, 0xE0, 0xA0, 0x1F, 0x20])
    elif c < 0.65:
        v = (old + rng.choice([-1, 1])) & 0xFF
    elif c < 0.8:
        v = old ^ (1 << rng.randrange(8))
    else:
        v = rng.randrange(256)
    return v


def _gen_inflate(rng, fi, data, lay):
    """Rewrite a length/count varint into a huge one (a run of 0xFF continuation bytes, then a terminator): the classic
    'count honoured before the data is there' probe. Positions: a field's length varint, the leading count of a field
    (string pool, id map, locations - documented as 'count, then that many entries'), a zone's period count."""
    c = rng.random()
    if c < 0.2 and lay["pool_spans"]:
        # the length prefix of a string in the string pool (strings there are stored inline: length, then bytes)
        off, reg = rng.choice(lay["pool_spans"])[0], "inflate-pool-strlen"
        j = rng.choice([3, 4, 4, 4])
        if j == 4 and rng.random() < 0.7:
            # prefer places where the five-byte varint that results is still below the 2^31 cap, i.e. is *accepted* as a length
            ok = [sp[0] for sp in lay["pool_spans"] if sp[0] + 4 < len(data) and data[sp[0] + 4] <= 7]
            if ok:
                off = rng.choice(ok)
        plan = [["sub", off + i, 0xFF] for i in range(j) if off + i < len(data) and data[off + i] != 0xFF]
        if j == 3 and off + 3 < len(data):
            plan.append(["sub", off + 3, rng.choice([0x7F, 0x07, 0x01])])
        return (plan or [["sub", off, 0xFE]]), [reg] * max(1, len(plan))
    if c < 0.3:
        f = rng.choice(lay["fields"])
        off, reg = f["len_start"], "inflate-field-length"
    elif c < 0.42 and lay["other_fields"]:
        # any position inside a metadata field (windows mapping, locations, id map): nested counts and lengths live there
        f = rng.choice(lay["other_fields"])
        off, reg = rng.randrange(f["data_start"], max(f["end"] - 4, f["data_start"] + 1)), "inflate-meta-any"
    elif c < 0.55:
        f = rng.choice([x for x in lay["fields"] if x["id"] != 1] or lay["fields"])
        off, reg = f["data_start"], "inflate-field-count"
    else:
        f = rng.choice(lay["zone_fields"])
        off, reg = f.get("body_start", f["data_start"]) + 1 + rng.choice([0, 0, 0, 1, 2]), "inflate-zone-count"
    j = rng.choice([2, 3, 3, 3, 4])
    plan = []
    for i in range(j):
        if off + i < len(data):
            plan.append(["sub", off + i, 0xFF])
    if j < 4 and rng.random() < 0.7 and off + j < len(data):
        plan.append(["sub", off + j, rng.choice([0x7F, 0x07, 0x01, 0x3F])])
    plan = [f for f in plan if data[f[1]] != f[2]] or [["sub", off, 0xFF ^ (data[off] == 0xFF)]]
    return plan, [reg] * len(plan)


def _gen_idmap(rng, fi, data, lay):
    """Reference-table mutations on the alias map (pairs of string references): copy one entry's key or target reference
    over another entry's reference of the same byte length - alias -> alias, alias cycles, self-aliases, duplicate keys,
    dangling targets. At most 4 substituted bytes, so inside the stated fault space."""
    es = lay["idmap"]
    if len(es) < 2:
        return None
    kind = rng.choice(["val=key", "cycle", "self", "dupkey", "val=val", "key=val"])
    for _ in range(50):
        a, b = rng.sample(es, 2)
        subs = []

        def copy(dst0, dst1, src0, src1):
            if dst1 - dst0 != src1 - src0:
                return False
            for i in range(dst1 - dst0):
                if data[dst0 + i] != data[src0 + i]:
                    subs.append(["sub", dst0 + i, data[src0 + i]])
            return True

        ok = {
            "val=key": lambda: copy(a["v0"], a["v1"], b["k0"], b["k1"]),
            "cycle": lambda: copy(a["v0"], a["v1"], b["k0"], b["k1"]) and copy(b["v0"], b["v1"], a["k0"], a["k1"]),
            "self": lambda: copy(a["v0"], a["v1"], a["k0"], a["k1"]),
            "dupkey": lambda: copy(a["k0"], a["k1"], b["k0"], b["k1"]),
            "val=val": lambda: copy(a["v0"], a["v1"], b["v0"], b["v1"]),
            "key=val": lambda: copy(a["k0"], a["k1"], b["v0"], b["v1"]),
        }[kind]()
        if ok and 1 <= len(subs) <= 4:
            return subs, ["idmap-" + kind] * len(subs)
    return None


def _enc_varint(n):
    out = []
    while True:
        b = n & 0x7F
        n >>= 7
        if n:
            out.append(b | 0x80)
        else:
            out.append(b)
            return out


def _gen_utc_id(rng, fi, data, lay):
    """Ids of the form 'UTC', 'UTC+hh[:mm]' are documented as fixed-offset ids that the provider serves itself; damage that
    makes a listed id look like one (or redirects an id reference to one of the 'UTC..' strings already in the pool) sends
    lookups down that special path. Two sub-kinds, each at most 4 substituted bytes."""
    spans = lay["pool_spans"]
    pool = lay["pool"]
    subs = []
    if rng.random() < 0.5:
        # (a) make the string of an id start with 'UTC'
        cands = [z for z in lay["zones"]] + [e["key"] for e in lay["idmap"] if e["key"]]
        fixed = [z for z, f in lay["zones"].items() if data[f.get("body_start", f["data_start"])] == 1]
        name = rng.choice(fixed) if fixed and rng.random() < 0.5 else rng.choice(cands)
        if name not in lay["pool_index"] or len(name) < 4:
            return None
        s0, s1 = spans[lay["pool_index"][name]]
        body = s1 - len(name.encode())
        for i, ch in enumerate(b"UTC"):
            if data[body + i] != ch:
                subs.append(["sub", body + i, ch])
        if len(subs) < 4 and rng.random() < 0.5:
            ch = rng.choice(b"+-1x:0")
            if data[body + 3] != ch:
                subs.append(["sub", body + 3, ch])
        return (subs, ["utc-id-prefix"] * len(subs)) if subs else None
    # (b) redirect an id reference to a 'UTC..' pool string, optionally after changing one of its characters
    utc = [i for i, p in enumerate(pool) if p.startswith("UTC")]
    if not utc:
        return None
    idx = rng.choice(utc)
    enc = _enc_varint(idx)
    if len(pool[idx]) > 3 and rng.random() < 0.7:
        s0, s1 = spans[idx]
        body = s1 - len(pool[idx].encode())
        j = rng.randrange(3, len(pool[idx]))
        ch = rng.choice(b"0123456789+-:")
        if data[body + j] != ch:
            subs.append(["sub", body + j, ch])
    sites = [(e["k0"], e["k1"]) for e in lay["idmap"]] + [(e["v0"], e["v1"]) for e in lay["idmap"]]
    sites += [(f["data_start"], f["body_start"]) for f in lay["zone_fields"] if "body_start" in f]
    sites = [x for x in sites if x[1] - x[0] == len(enc)]
    if not sites:
        return None
    a0, a1 = rng.choice(sites)
    for i, b in enumerate(enc):
        if data[a0 + i] != b:
            subs.append(["sub", a0 + i, b])
    return (subs, ["utc-id-reference"] * len(subs)) if 1 <= len(subs) <= 4 else None


def gen_corruption(seed):
    rng = random.Random(seed)
    fs = files()
    fi = 0 if rng.random() < 0.6 else 1
    data, lay = fs[fi], _LAYOUT[fi]
    c0 = rng.random()
    if 0.29 <= c0 < 0.33 and lay["nested"]:
        # a count nested inside a metadata record: make it zero (over-long, so that the record keeps its length and everything
        # after it stays aligned), or huge, or off by one
        e = rng.choice(lay["nested"])
        span = e["items_end"] - e["off"]
        kind = rng.choice(["zero-aligned", "zero-aligned", "inflate", "plus1", "minus1"])
        plan = []
        if kind == "zero-aligned" and 2 <= span <= 4:
            want = [0x80] * (span - 1) + [0]
            plan = [["sub", e["off"] + i, b] for i, b in enumerate(want) if data[e["off"] + i] != b]
        elif kind == "inflate":
            plan = [["sub", e["off"] + i, 0xFF] for i in range(rng.choice([2, 3, 4])) if data[e["off"] + i] != 0xFF]
        elif kind == "plus1":
            plan = [["sub", e["off"], (data[e["off"]] + 1) & 0x7F]]
        else:
            plan = [["sub", e["off"], (data[e["off"]] - 1) & 0x7F]]
        if 1 <= len(plan) <= 4:
            return {
                "prop": PROP, "seed": seed, "mode": "corrupt", "file": fi, "plan": plan, "regions": ["nested-count-" + kind] * len(plan),
                "all_ids": False, "extra_ids": rng.randrange(0, 3), "ids_seed": rng.randrange(1 << 30), "tracemalloc": False,
            }  # fmt: skip
    if 0.22 <= c0 < 0.29:
        # over-long encoding of a small number: a run of 0x80 continuation bytes and then 0, 1 or 2, written over k bytes.
        # Where those k bytes were "a count and the (k-1) bytes it announced", everything after stays aligned and the
        # decoder meets a count of zero (or one, or two) it never sees in real data.
        k = rng.choice([2, 3, 3, 4])
        if rng.random() < 0.6 and lay["other_fields"]:
            f = rng.choice(lay["other_fields"])
            reg = "overlong-small-meta:%d" % f["id"]
        else:
            f = rng.choice(lay["zone_fields"])
            reg = "overlong-small-zone"
        off = rng.randrange(f["data_start"], max(f["end"] - k, f["data_start"] + 1))
        v = rng.choice([0, 0, 1, 2])
        want = [v | 0x80] + [0x80] * (k - 2) + [0x00]  # over-long encoding of v in k bytes
        plan = [["sub", off + i, b] for i, b in enumerate(want) if off + i < len(data) and data[off + i] != b]
        if plan:
            return {
                "prop": PROP, "seed": seed, "mode": "corrupt", "file": fi, "plan": plan, "regions": [reg] * len(plan),
                "all_ids": False, "extra_ids": rng.randrange(0, 3), "ids_seed": rng.randrange(1 << 30), "tracemalloc": False,
            }  # fmt: skip
    if 0.17 <= c0 < 0.22:
        r = _gen_utc_id(rng, fi, data, lay)
        if r is not None:
            return {
                "prop": PROP, "seed": seed, "mode": "corrupt", "file": fi, "plan": r[0], "regions": r[1],
                "all_ids": False, "extra_ids": rng.randrange(0, 3), "ids_seed": rng.randrange(1 << 30), "tracemalloc": False,
            }  # fmt: skip
    if 0.10 <= c0 < 0.17:
        r = _gen_idmap(rng, fi, data, lay)
        if r is not None:
            return {
                "prop": PROP, "seed": seed, "mode": "corrupt", "file": fi, "plan": r[0], "regions": r[1],
                "all_ids": False, "extra_ids": rng.randrange(0, 3), "ids_seed": rng.randrange(1 << 30), "tracemalloc": False,
            }  # fmt: skip
    if c0 < 0.10:
        plan, regions = _gen_inflate(rng, fi, data, lay)
        return {
            "prop": PROP, "seed": seed, "mode": "corrupt", "file": fi, "plan": plan, "regions": regions,
            "all_ids": False, "extra_ids": rng.randrange(0, 3), "ids_seed": rng.randrange(1 << 30), "tracemalloc": False,
        }  # fmt: skip
    k = rng.choices([1, 2, 3, 4], [50, 25, 15, 10])[0]
    plan = []
    regions = []
    base = None
    for _ in range(k):
        if base is not None and rng.random() < 0.5:
            off, reg = min(lay["n"] - 1, max(0, base + rng.randrange(-3, 4))), "adjacent"
        else:
            off, reg = _pick_offset(rng, lay)
            base = off
        kind = rng.choices(["sub", "ins", "del", "swap"], [66, 14, 14, 6])[0]
        old = data[off] if off < len(data) else 0
        if kind == "swap":
            # two neighbouring bytes exchanged (counts as two substitutions)
            if off + 1 < len(data) and data[off] != data[off + 1] and len(plan) + 2 <= 4:
                plan.append(["sub", off, data[off + 1]])
                plan.append(["sub", off + 1, data[off]])
                regions += [reg, reg]
                continue
            kind = "sub"
        if kind == "sub":
            v = _pick_byte(rng, old, data, off)
            if v == old:
                v = old ^ 0x80
            plan.append(["sub", off, v])
        elif kind == "ins":
            plan.append(["ins", off, _pick_byte(rng, old, data, off)])
        else:
            plan.append(["del", off])
        regions.append(reg)
    return {
        "prop": PROP, "seed": seed, "mode": "corrupt", "file": fi, "plan": plan, "regions": regions,
        "all_ids": rng.random() < 0.05, "extra_ids": rng.randrange(0, 6), "ids_seed": rng.randrange(1 << 30),
        "tracemalloc": rng.random() < 1 / 16,
    }  # fmt: skip


def gen_trunc(fi, t, seed):
    return {
        "prop": PROP, "seed": seed, "mode": "trunc", "file": fi, "plan": [["trunc", t]], "regions": ["trunc"],
        "all_ids": False, "extra_ids": 2, "ids_seed": seed & 0xFFFFFF, "tracemalloc": False,
    }  # fmt: skip


def gen_run(seed):
    """A corruption plan (used by --run-seed and by the seeded part of every tier)."""
    return gen_corruption(seed)


def corpus():
    if os.environ.get("VERIF_C20_NO_CORPUS"):
        return []
    p = os.path.join(os.path.dirname(os.path.abspath(__file__)), "c20_corpus.json")
    try:
        with open(p) as f:
            return json.load(f)
    except FileNotFoundError:
        return []


def tier_layout(tier, master_seed):
    """-> (n_cases, case(k), n_enumerated). Pinned regression plans first, then truncations (enumerated), then seeded
    corruptions."""
    fs = files()
    corp = corpus()
    if tier == "thorough":
        truncs = [(fi, t) for fi in (0, 1) for t in range(len(fs[fi]))]
        n_corrupt = 250_000
    else:
        truncs = []
        rng = random.Random(master_seed ^ 0xC20)
        for fi in (0, 1):
            bs = _LAYOUT[fi]["boundaries"]
            # every offset of the header and the first field header, every field boundary +-2, plus a seeded sample
            pts = set(range(0, 12)) | set(rng.sample(bs, min(len(bs), 500 if tier == "quick" else 200)))
            pts |= {rng.randrange(len(fs[fi])) for _ in range(300 if tier == "quick" else 100)}
            truncs += [(fi, t) for t in sorted(pts) if t < len(fs[fi])]
        n_corrupt = 3400 if tier == "quick" else 600
    # tail sweep: small marker values and continuation bytes on each of the last bytes of (a sample of) zone bodies - the
    # only way to drive the lazily run zone decoder into end-of-data, since a zone body is its own little stream
    sweep = []
    rng2 = random.Random(master_seed ^ 0x7A11)
    for fi in (0, 1):
        zf = _LAYOUT[fi]["zone_fields"]
        sample = zf if tier == "thorough" else rng2.sample(zf, min(len(zf), 14))
        for f in sample:
            for back in range(1, 11):
                off = f["end"] - back
                if off <= f.get("body_start", f["data_start"]):
                    continue
                for v in (0, 1, 2, 3, 0x80, 0xFF):
                    if fs[fi][off] != v:
                        sweep.append((fi, off, v))
            if tier == "thorough":
                # deeper, and with the two-byte over-long encodings of the small marker values (81 00 = 1, 82 00 = 2, 80 00 = 0)
                for back in range(2, 41):
                    off = f["end"] - back
                    if off <= f.get("body_start", f["data_start"]):
                        continue
                    for v in (0x80, 0x81, 0x82):
                        sweep.append((fi, off, (v, 0x00)))
    n = len(corp) + len(truncs) + len(sweep) + n_corrupt

    def case(k):
        rs = derive_seed(master_seed, PROP, k)
        if len(corp) + len(truncs) <= k < len(corp) + len(truncs) + len(sweep):
            fi, off, v = sweep[k - len(corp) - len(truncs)]
            plan = [["sub", off, v]] if isinstance(v, int) else [["sub", off + i, b] for i, b in enumerate(v)]
            return {"prop": PROP, "seed": rs, "mode": "sweep", "file": fi, "plan": plan, "regions": ["zone-tail-sweep"],
                    "all_ids": False, "extra_ids": 0, "ids_seed": 3, "tracemalloc": False}  # fmt: skip
        if k >= len(corp) + len(truncs) + len(sweep):
            return gen_corruption(rs)
        if k < len(corp):
            c = corp[k]
            return {"prop": PROP, "seed": rs, "mode": "corpus", "file": c["file"], "plan": c["plan"], "regions": ["corpus"],
                    "all_ids": False, "extra_ids": 1, "ids_seed": 7, "tracemalloc": False}  # fmt: skip
        k -= len(corp)
        if k < len(truncs):
            return gen_trunc(truncs[k][0], truncs[k][1], rs)
        return gen_corruption(rs)

    return n, case, len(corp) + len(truncs) + len(sweep)


_CASE = None


def gen_case(master_seed, k):
    return _CASE(k)


# ---------------------------------------------------------------------------------------------------------------------
# execution


def _meter():
    global _METER
    if _METER is None:
        _METER = simio.WorkMeter()
        _METER.install()
    return _METER


_HELPER_FILES = ("utility/_preconditions.py",)
_VIA_RE = re.compile(r"^_{0,2}(read|handle|create_zone|from_stream|read_fields|ctor|init)")


def _signature(op, exc):
    frames = []
    for fs in traceback.extract_tb(exc.__traceback__):
        fn = fs.filename
        if fn.startswith(bootstrap.PKG_PREFIX):
            frames.append((fn[len(bootstrap.PKG_PREFIX) :], fs.name))
    site = None
    for rel, name in reversed(frames):
        if rel not in _HELPER_FILES:
            site = (rel, name)
            break
    via = None
    seen_site = False
    for rel, name in reversed(frames):
        if not seen_site:
            if (rel, name) == site:
                seen_site = True
            continue
        if _VIA_RE.match(name.lstrip("_")) or _VIA_RE.match(name):
            via = (rel, name)
            break
    s = f"{op} raises {type(exc).__name__}"
    if site:
        s += f" at {site[0]}:{site[1]}"
    if via:
        s += f" via {via[0]}:{via[1]}"
    return s


class _Run:
    def __init__(self, limits):
        self.ops = []  # [op, outcome, work]
        self.violation = None  # (signature, detail)
        self.limits = limits
        self.meter = _meter()

    def op(self, name, kind, fn, allowed):
        """Run one operation under the work budget. Returns (ok, value)."""
        lim = self.limits.get(kind)
        m = self.meter
        val = None
        try:
            m.start(lim)
            try:
                val = fn()
            finally:
                work = m.stop()
            self.ops.append([name, "ok", work])
            return True, val
        except simio.BudgetExceeded:
            self.ops.append([name, "BUDGET", lim])
            if self.violation is None:
                self.violation = (f"{kind} not prompt (work budget exceeded)", f"{name}: more than {lim} function entries + loop iterations (intact data needs {self.limits.get(kind + ':w')})")  # fmt: skip
            return False, None
        except MemoryError as e:
            self.ops.append([name, "MemoryError", m.count])
            if self.violation is None:
                self.violation = (_signature(kind, e), f"{name}: memory exhausted")
            return False, None
        except Exception as e:  # noqa: BLE001
            tn = type(e).__name__
            in_pkg = type(e).__module__.startswith("pyoda_time")
            self.ops.append([name, tn, m.count])
            if not (tn in allowed and in_pkg):
                if self.violation is None:
                    self.violation = (_signature(kind, e), f"{name}: {tn}: {str(e)[:160]}")
            return False, None


def _choose_ids(spec, loaded_ids, ctl):
    lay = _LAYOUT[spec["file"]]
    damaged = [f[1] for f in spec["plan"]]
    chosen = []
    canon_hit = set()
    for zid, f in lay["zones"].items():
        for off in damaged:
            if any(x[0] == "trunc" and x[1] == off for x in spec["plan"]):
                hit = f["start"] - 2 <= off <= f["end"] + 2
            else:
                hit = f["start"] - 1 <= off <= f["end"]
            if hit:
                canon_hit.add(zid)
    loaded = set(loaded_ids)
    # damage inside the alias map: the aliases whose entries were touched (their keys may be unchanged, so they would not
    # show up as new ids), and the ids they pointed at
    for e in lay.get("idmap", []):
        if any(e["k0"] <= off < e["v1"] for off in damaged):
            for nm in (e["key"], e["val"]):
                if nm in loaded:
                    chosen.append(nm)
    for zid in sorted(canon_hit):
        if zid in loaded:
            chosen.append(zid)
        for al in ctl["aliases_of"].get(zid, [])[:3]:
            if al in loaded:
                chosen.append(al)
    intact = ctl["ids_set"]
    new = sorted(i for i in loaded if i not in intact)[:10]
    chosen += new
    rng = random.Random(spec["ids_seed"])
    srt = sorted(loaded)
    if spec["all_ids"]:
        chosen += srt
    elif srt:
        chosen += [rng.choice(srt) for _ in range(spec["extra_ids"])]
    out = []
    seen = set()
    for c in chosen:
        if c not in seen:
            seen.add(c)
            out.append(c)
    return out


def _limits(ctl):
    if ctl is None:
        return {}
    lim = {}
    for kind in ("load", "list", "provider", "fetch"):
        w = ctl["work"][kind]
        lim[kind] = BUDGET_FACTOR * w + BUDGET_SLACK
        lim[kind + ":w"] = w
    return lim


def _workload(run, data, spec, ctl, fetch_all=False):
    from pyoda_time.time_zones._tzdb_date_time_zone_source import TzdbDateTimeZoneSource
    from pyoda_time import DateTimeZone
    from pyoda_time.time_zones._date_time_zone_cache import DateTimeZoneCache

    stream = simio.SimStream(data)
    ok, source = run.op("from_stream", "load", lambda: TzdbDateTimeZoneSource.from_stream(stream), ALLOWED_ALWAYS)
    info = {"read_calls": stream.read_calls, "bytes_read": stream.bytes_read, "loaded": ok}
    if not ok:
        return info
    ok, ids = run.op("get_ids", "list", lambda: list(source.get_ids()), ALLOWED_ALWAYS)
    run.op("version_id", "list", lambda: source.version_id, ALLOWED_ALWAYS)
    okc, cache = run.op("DateTimeZoneCache(source)", "provider", lambda: DateTimeZoneCache(source), ALLOWED_PROVIDER)
    if okc:
        okci, cids = run.op("cache.ids", "list", lambda: list(cache.ids), ALLOWED_PROVIDER)
        if ok and okci and sorted(ids) != sorted(cids):
            info["ids_mismatch"] = True
    if not ok:
        return info
    info["n_ids"] = len(ids)
    chosen = ids if fetch_all else _choose_ids(spec, ids, ctl)
    info["fetched"] = len(chosen)
    n_ok = 0
    for zid in chosen:
        o1, z = run.op(f"source.for_id({zid!r})", "fetch", lambda: source.for_id(zid), ALLOWED_ALWAYS)
        n_ok += o1
        if o1 and not isinstance(z, DateTimeZone):
            # "works" means a zone comes back: for_id is declared to return a DateTimeZone for every id the source lists
            if run.violation is None:
                run.violation = (f"fetch returns {type(z).__name__} instead of a zone from source.for_id", f"source.for_id({zid!r}) returned {z!r} for an id the source lists")  # fmt: skip
        elif o1 and getattr(z, "id", None) != zid:
            info["wrong_id"] = zid
        if okc:
            o2, z2 = run.op(f"cache[{zid!r}]", "fetch", lambda: cache[zid], ALLOWED_PROVIDER)
            o3, z3 = run.op(f"cache.get_zone_or_none({zid!r})", "fetch", lambda: cache.get_zone_or_none(zid), ALLOWED_PROVIDER)
            if (o2 and not isinstance(z2, DateTimeZone)) or (o3 and not isinstance(z3, DateTimeZone)):
                if run.violation is None:
                    run.violation = ("fetch returns no zone from the provider", f"provider lookup of listed id {zid!r} returned {z2!r} / {z3!r}")  # fmt: skip
    info["fetch_ok"] = n_ok
    info["ids"] = ids if fetch_all else None
    return info


def execute(spec):
    import resource

    lim = _vm_size() + MEM_HEADROOM
    resource.setrlimit(resource.RLIMIT_AS, (lim, lim))
    rss0 = resource.getrusage(resource.RUSAGE_SELF).ru_maxrss
    fs = files()
    data = simio.apply_plan(fs[spec["file"]], spec["plan"])
    ctl = _CONTROL[spec["file"]] if _CONTROL else None
    if ctl is None:
        raise bootstrap.HarnessError("control measurements missing (prepare() not run)")
    run = _Run(_limits(ctl))
    tm = spec.get("tracemalloc")
    if tm:
        import tracemalloc

        tracemalloc.start()
    info = _workload(run, data, spec, ctl)
    peak = None
    if tm:
        import tracemalloc

        peak = tracemalloc.get_traced_memory()[1]
        tracemalloc.stop()
    out = {"prop": PROP, "mode": spec["mode"], "ops": [[o[0], o[1], o[2]] for o in run.ops][:60], "n_ops": len(run.ops), "info": {k: v for k, v in info.items() if k != "ids"}}  # fmt: skip
    effective = data != fs[spec["file"]]
    outcomes = [o[1] for o in run.ops]
    probes = {
        "effective_plan": int(effective),
        "load_rejected": int(not info["loaded"]),
        "load_accepted": int(info["loaded"]),
        "zone_fetches": info.get("fetched", 0),
        "zone_fetch_rejected": sum(1 for o in run.ops if o[0].startswith("source.for_id") and o[1] != "ok"),
        "zone_fetch_ok": info.get("fetch_ok", 0),
        "documented_error_raised": sum(1 for o in outcomes if o in ALLOWED_PROVIDER),
        "bytes_consumed_before_verdict": info["bytes_read"],
        "tracemalloc_runs": int(bool(tm)),
    }
    for r in set(spec.get("regions", [])):
        probes["region:" + r.split(":")[0]] = 1
    for f in spec["plan"]:
        probes["fault:" + f[0]] = probes.get("fault:" + f[0], 0) + 1
    out["probes"] = probes
    out["notes"] = []
    if info.get("ids_mismatch"):
        out["notes"].append("provider ids differ from source ids")
    rss_growth = resource.getrusage(resource.RUSAGE_SELF).ru_maxrss - rss0
    probes["rss_growth_kb_max"] = 0  # (per-run values are not summed; see rss_growth_over_64MiB)
    probes["rss_growth_over_64MiB"] = int(rss_growth > 64 * 1024)
    if run.violation is None and rss_growth > 8 * ctl.get("rss_growth_kb", 0) + RSS_SLACK_KB:
        run.violation = ("resident memory grew far beyond the intact-file workload", f"peak RSS grew by {rss_growth} kB (intact-file workload: {ctl.get('rss_growth_kb')} kB)")  # fmt: skip
    if run.violation is None and peak is not None and peak > 8 * ctl["peak"] + (16 << 20):
        run.violation = ("memory peak exceeds 8x intact + 16MiB", f"peak {peak} bytes vs intact {ctl['peak']}")
    if run.violation is not None:
        out["verdict"] = "violation"
        out["signature"], out["detail"] = run.violation
        out["detail"] += f" | plan={spec['plan']} file={FILES_REL[spec['file']]}"
    else:
        out["verdict"] = "ok"
    return out


# ---------------------------------------------------------------------------------------------------------------------
# fault-free control, measured on the current tree (in a fork, so the parent stays pristine)


def _vm_size():
    try:
        with open("/proc/self/statm") as f:
            return int(f.read().split()[0]) * os.sysconf("SC_PAGE_SIZE")
    except Exception:  # noqa: BLE001
        return 3 << 30


def _control(fi):
    import resource

    rss0 = resource.getrusage(resource.RUSAGE_SELF).ru_maxrss
    fs = files()
    data = fs[fi]
    run = _Run({})
    spec = {"file": fi, "plan": [], "mode": "control", "all_ids": True, "extra_ids": 0, "ids_seed": 0}
    info = _workload(run, data, spec, None, fetch_all=True)
    bad = [o for o in run.ops if o[1] != "ok"]
    if bad or run.violation:
        return {"error": f"intact file {FILES_REL[fi]} does not load cleanly: {bad[:3]} {run.violation}"}
    # the BytesIO path must list exactly the same ids
    import io

    from pyoda_time.time_zones._tzdb_date_time_zone_source import TzdbDateTimeZoneSource

    src2 = TzdbDateTimeZoneSource.from_stream(io.BytesIO(data))
    ids2 = sorted(src2.get_ids())
    if ids2 != sorted(info["ids"]):
        return {"error": "SimStream and BytesIO paths list different ids"}
    cmap = dict(src2.canonical_id_map)
    aliases_of = {}
    for k, v in cmap.items():
        if k != v:
            aliases_of.setdefault(v, []).append(k)
    work = {"load": 0, "list": 0, "provider": 0, "fetch": 0}
    for name, outcome, w in run.ops:
        kind = "load" if name == "from_stream" else "provider" if name.startswith("DateTimeZoneCache") else "fetch" if ("for_id" in name or name.startswith("cache[") or "get_zone_or_none" in name) else "list"  # fmt: skip
        work[kind] = max(work[kind], w)
    # memory reference: the heaviest workload a run can perform (load + fetch every zone three ways) on intact data
    import tracemalloc

    tracemalloc.start()
    _workload(_Run({}), data, spec, None, fetch_all=True)
    peak = tracemalloc.get_traced_memory()[1]
    tracemalloc.stop()
    rss_growth = resource.getrusage(resource.RUSAGE_SELF).ru_maxrss - rss0
    return {"rss_growth_kb": rss_growth, "ids": ids2, "aliases_of": {k: sorted(v) for k, v in aliases_of.items()}, "work": work, "peak": peak, "n_ops": len(run.ops), "bytes_read": info["bytes_read"], "read_calls": info["read_calls"]}  # fmt: skip


def prepare(tier, master_seed, workers):
    global _CONTROL, _CASE
    files()
    ctl = []
    for fi in (0, 1):
        r = bootstrap.run_in_fork(_control, fi, 300)
        if "harness" in r or "error" in r:
            raise bootstrap.HarnessError(f"fault-free control failed: {r}")
        r["ids_set"] = set(r["ids"])
        ctl.append(r)
    _CONTROL = ctl
    n, case, ntr = tier_layout("quick" if tier == "selftest" else tier, master_seed)
    _CASE = case
    return n, ntr


# ---------------------------------------------------------------------------------------------------------------------


def nontrivial_key(spec, res):
    """Distinct + non-trivial: distinct fault plans that changed at least one byte the loader consumed or would consume
    (the damaged stream differs from the intact file)."""
    if not (res.get("probes") or {}).get("effective_plan"):
        return None
    return "%d:%s" % (spec["file"], ";".join(",".join(str(x) for x in f) for f in spec["plan"]))


def shrink_candidates(spec):
    for i in range(len(spec["plan"]) - 1, -1, -1):
        if len(spec["plan"]) > 1:
            yield ("drop_fault", i)
    if spec.get("all_ids"):
        yield ("no_all_ids",)
    if spec.get("extra_ids"):
        yield ("no_extra_ids",)
    for i, f in enumerate(spec["plan"]):
        if f[0] in ("sub", "ins"):
            for v in (0x00, 0xFF, 0x80):
                if f[2] != v:
                    yield ("byte", i, v)


def apply_shrink(spec, cand):
    import copy

    s = copy.deepcopy(spec)
    if cand[0] == "drop_fault":
        del s["plan"][cand[1]]
        if "regions" in s and len(s["regions"]) > cand[1]:
            del s["regions"][cand[1]]
    elif cand[0] == "no_all_ids":
        s["all_ids"] = False
    elif cand[0] == "no_extra_ids":
        s["extra_ids"] = 0
    elif cand[0] == "byte":
        s["plan"][cand[1]][2] = cand[2]
    return s


RULE = (
    "one case = one fault plan applied to one of the two real database files, then from_stream + get_ids + version_id + "
    "DateTimeZoneCache(source) + .ids + for_id/cache[id]/get_zone_or_none for every zone whose bytes were touched (and its "
    "aliases), ids that newly appeared, and a seeded sample of others. Truncations are enumerated (quick: every field boundary "
    "+-2, the header and first field header, a seeded sample; thorough: every prefix of both files); corruptions are k<=4 byte "
    "substitute/insert/delete edits drawn from the seed, stratified over structural regions with boundary-biased byte values. "
    "Distinct = different (file, plan); non-trivial = the damaged stream differs from the intact file."
)
ASSUMPTIONS = [
    "the stream behaves like io.BufferedIOBase (short result only at end of data); OSError and short reads before EOF are outside the stated quantifier and not injected",
    "'promptly / never hangs' is decided by a deterministic work budget (function entries + loop back-edges counted with sys.monitoring) of 20x the intact-file cost + 1e5 per operation, calibrated on the current tree at every invocation; loops inside C code are covered only by the wall-clock watchdog",
    "'exhausts memory' is decided three ways: RLIMIT_AS = the child's address space at start + 1 GiB (a MemoryError is a violation), growth of peak resident memory during the run bounded by 8x the intact-file workload's growth + 192 MiB (every run), and in 1 run of 16 a tracemalloc peak bound of 8x the intact peak + 16MiB",
    "zones are fetched, not queried: behaviour of a zone object built from damaged but accepted data is outside the statement",
]

TIERS = {"quick": {"budget": 240.0}, "thorough": {"budget": 5400.0}}


def main(a, boot_info):
    from sim import runner

    t = TIERS[a.tier]
    n, ntr = prepare(a.tier, a.seed, a.workers)
    nruns = a.runs or n
    budget = a.budget or t["budget"]
    ctl = [{k: v for k, v in c.items() if k not in ("ids", "ids_set", "aliases_of")} | {"n_ids": len(c["ids"])} for c in _CONTROL]
    extra = {
        "bootstrap": boot_info,
        "fault_free_control": ctl,
        "truncation_cases_enumerated": ntr,
        "corruption_cases_seeded": max(0, nruns - ntr),
        "files": [{"path": FILES_REL[i], "bytes": len(_FILES[i]), "fields": len(_LAYOUT[i]["fields"]), "zone_fields": len(_LAYOUT[i]["zone_fields"])} for i in (0, 1)],
        "work_budget": {"factor": BUDGET_FACTOR, "slack": BUDGET_SLACK},
    }  # fmt: skip

    def extra_fn(agg):
        e = dict(extra)
        cut = agg.get("first_k_skipped")
        complete = (cut is None or cut >= ntr) and nruns >= ntr and not agg.get("harness")
        e["truncation_space_exhaustive"] = bool(a.tier == "thorough" and complete)
        e["enumerated_part_complete"] = bool(complete)  # corpus + truncations + zone-tail sweep all ran
        e["exhaustive"] = False  # the corruption space is sampled; only the truncation sub-space can be complete
        return e

    code, agg = runner.check_property(sys.modules[__name__], a.tier, a.seed, nruns, a.workers, budget, "fault_enumeration", RULE, ASSUMPTIONS, extra_cov=extra_fn, wall_timeout=120.0)  # fmt: skip
    return code
