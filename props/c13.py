"""C13 - results do not depend on call history or on concurrent use (DESIGN.md section 4, C13).

Caller threads (1-16) issue seeded programs of public-API queries against the process-wide caches and lazy singletons;
the scheduler owns every interleaving. The oracle is the *empty history*: every query of the invocation's pool is first
evaluated alone in its own fresh fork of the pristine parent (cold caches, single thread, untraced), and every answer
observed in a run must equal that cold answer. On top of that the stated identities (one zone object per provider id, one
CalendarSystem per id, one provider, one UTC zone) are checked across everything a run obtained.
"""

from __future__ import annotations

import json
import os
import random
import select
import sys
import time
import traceback
import zlib

from sim import bootstrap, simsched
from sim.runner import derive_seed

PROP = "C13"
HOT_FILES = (
    "calendars/_year_start_cache_entry.py", "calendars/_year_month_day_calculator.py", "calendars/_hebrew_scriptural_calculator.py",
    "time_zones/_caching_zone_interval_map.py", "time_zones/_cached_date_time_zone.py", "time_zones/_date_time_zone_cache.py",
    "_date_time_zone_providers.py", "_date_time_zone.py", "_calendar_system.py", "utility/_cache.py",
    "globalization/_pyoda_format_info.py", "text/_fixed_format_info_pattern_parser.py", "_compatibility/_culture_info.py",
    "_compatibility/_culture_data.py", "calendars/_era.py", "time_zones/_tzdb_date_time_zone_source.py",
    "text/_local_time_pattern.py", "text/_local_date_pattern.py", "text/_local_date_time_pattern.py", "text/_offset_pattern.py",
    "text/_duration_pattern.py", "text/_instant_pattern.py", "text/_annual_date_pattern.py",
    "_compatibility/_interop.py", "_compatibility/_calendar_data.py", "_compatibility/_date_time_format_info.py",
    "_compatibility/_icu_locale_data.py", "_compatibility/_number_format_info.py", "text/_pattern_bcl_support.py",
    "time_zones/_precalculated_date_time_zone.py", "time_zones/_standard_daylight_alternating_map.py", "time_zones/_zone_recurrence.py",
    "_zoned_clock.py",
)  # fmt: skip
MAX_STEPS = 2_000_000
COARSE_FILES = ("time_zones/io/_tzdb_stream_field.py", "time_zones/io/_date_time_zone_reader.py", "utility/_preconditions.py",
                "utility/_csharp_compatibility.py")  # fmt: skip
NS_DAY = 86400 * 10**9

CAL_RANGE = {
    "ISO": (-9998, 9999), "Gregorian": (-9998, 9999), "Julian": (-9997, 9998), "Coptic": (1, 9715), "Badi": (1, 999),
    "Hebrew Civil": (1, 9999), "Hebrew Scriptural": (1, 9999), "Persian Simple": (1, 9377), "Persian Arithmetic": (1, 9377),
    "Persian Algorithmic": (1, 9377), "Um Al Qura": (1318, 1500), "Hijri Civil-Base15": (1, 9665),
    "Hijri Astronomical-Base15": (1, 9665), "Hijri Civil-Base16": (1, 9665), "Hijri Astronomical-Base16": (1, 9665),
    "Hijri Civil-Indian": (1, 9665), "Hijri Astronomical-Indian": (1, 9665), "Hijri Civil-HabashAlHasib": (1, 9665),
    "Hijri Astronomical-HabashAlHasib": (1, 9665),
}  # fmt: skip
CAL_PROPS = ["iso", "gregorian", "julian", "coptic", "badi", "hebrew_civil", "hebrew_scriptural", "islamic_bcl",
             "persian_simple", "persian_arithmetic", "persian_astronomical", "um_al_qura"]  # fmt: skip
CAL_PROP_ID = {
    "iso": "ISO", "gregorian": "Gregorian", "julian": "Julian", "coptic": "Coptic", "badi": "Badi", "hebrew_civil": "Hebrew Civil",
    "hebrew_scriptural": "Hebrew Scriptural", "islamic_bcl": "Hijri Astronomical-Base16", "persian_simple": "Persian Simple",
    "persian_arithmetic": "Persian Arithmetic", "persian_astronomical": "Persian Algorithmic", "um_al_qura": "Um Al Qura",
}  # fmt: skip
ISLAMIC_ID = {(p, e): f"Hijri {'Civil' if e == 2 else 'Astronomical'}-{['Indian', 'Base15', 'Base16', 'HabashAlHasib'][p - 1]}" for p in (1, 2, 3, 4) for e in (1, 2)}  # fmt: skip
ERA_PROPS = ["common", "before_common", "anno_martyrum", "anno_hegirae", "anno_mundi", "anno_persico", "bahai"]
TZ_IDS = ["Europe/London", "America/New_York", "Australia/Lord_Howe", "Asia/Kathmandu", "Pacific/Apia", "America/Sao_Paulo",
          "Africa/Casablanca", "Europe/Dublin", "Asia/Tehran", "Pacific/Kiritimati", "America/St_Johns", "Antarctica/Troll",
          "Etc/UTC", "Asia/Tokyo"]  # fmt: skip
TZ_ALIASES = {"Europe/London": ["GB", "Europe/Jersey"], "America/New_York": ["US/Eastern"], "Asia/Kathmandu": ["Asia/Katmandu"],
              "Asia/Tehran": ["Iran"], "Asia/Tokyo": ["Japan"], "Etc/UTC": ["Etc/Zulu", "UCT"], "Europe/Dublin": ["Eire"]}  # fmt: skip
CULTURES = ["en-US", "en-GB", "fr-FR", "de-DE", "ru-RU", "ja-JP", "ar-SA", "fa-IR", "he-IL", "pl-PL", "cs-CZ", "th-TH", "el-GR",
            "tr-TR", "es-ES", "pt-BR", "zh-CN", "ko-KR", "hi-IN", "uk-UA", "fi-FI", "nb-NO", "it-IT", "nl-NL", "sv-SE", "hu-HU",
            "vi-VN", "bg-BG", "lt-LT", "ga-IE"]  # fmt: skip
PATTERNS = {
    "offset": ["g", "G", "l", "m", "s", "L", "+HH:mm", "-HH:mm:ss"],
    "duration": ["o", "-D:hh:mm:ss.FFFFFFFFF", "-H:mm:ss", "-M:ss.fff"],
    "instant": ["g", "uuuu-MM-dd'T'HH:mm:ss.FFF'Z'"],
    "localtime": ["t", "T", "r", "HH:mm:ss", "h:mm tt", "HH:mm:ss.fffffffff"],
    "localdate": ["d", "D", "uuuu-MM-dd", "dddd dd MMMM yyyy", "ddd d MMM yy", "d MMMM yyyy gg"],
    "localdatetime": ["f", "F", "g", "G", "o", "r", "s", "dddd, dd MMMM yyyy HH:mm", "ddd d MMM uuuu h:mm tt"],
    "annualdate": ["G", "MM-dd", "dd MMMM", "d MMM"],
}
ISO_SINGLETONS = {
    "localtime": ["extended_iso", "general_iso", "hour_iso", "hour_minute_iso", "long_extended_iso", "variable_precision_iso"],
    "localdate": ["full_roundtrip", "iso"],
    "localdatetime": ["bcl_round_trip", "date_hour_iso", "date_hour_minute_iso", "extended_iso", "full_roundtrip",
                      "full_roundtrip_without_calendar", "general_iso", "variable_precision_iso"],
    "instant": ["extended_iso", "general"],
    "offset": ["general_invariant", "general_invariant_with_z"],
    "duration": ["json_roundtrip", "roundtrip"],
    "annualdate": ["iso"],
}  # fmt: skip
NAME_FIELDS = ["short_day_names", "long_day_names", "short_month_names", "long_month_names", "long_month_genitive_names",
               "short_month_genitive_names", "am_designator", "pm_designator", "date_separator", "time_separator",
               "offset_pattern_long", "offset_pattern_short", "era:common", "era:before_common", "eranames:common",
               "eranames:anno_hegirae", "era:anno_mundi", "era:anno_martyrum", "eranames:anno_mundi", "eranames:anno_martyrum",
               "era:anno_persico", "era:bahai", "eranames:before_common"]  # fmt: skip

_TRANSITIONS = {}  # zone id -> transition instants (ns since epoch) 1800..2100, read through the public API in a fork
_HIST_PAIRS = []  # serial (warm-up, query) cases enumerated over years: year-boundary day conversions after the year was touched
_DOUBLE = []  # (zone id, T1, T2): two transitions inside one 32-day cache period
_SWEEPS = []  # systematic single-pre-emption cases (built in prepare)
_POOL = None  # {"cal": {...}, ...} structured pool of ops
_TABLE = None  # key(op) -> cold answer
_ALL_CULTURES = None


def key(op):
    return json.dumps(op, separators=(",", ":"))


# ---------------------------------------------------------------------------------------------------------------------
# op execution (public API only) and canonical answers


def _ns(inst):
    from pyoda_time import PyodaConstants

    return (inst - PyodaConstants.UNIX_EPOCH).to_nanoseconds()


def _inst(ns):
    from pyoda_time import Duration, PyodaConstants

    days, nod = divmod(ns, NS_DAY)
    return PyodaConstants.UNIX_EPOCH + Duration.from_days(days) + Duration.from_nanoseconds(nod)


def _culture(name, cmode):
    from pyoda_time._compatibility._culture_info import CultureInfo

    if cmode == "invariant":
        return CultureInfo.invariant_culture
    if cmode == "new":
        return CultureInfo(name)
    return CultureInfo.get_culture_info(name)


def _pattern_cls(ptype):
    import pyoda_time.text as T

    return {"offset": T.OffsetPattern, "duration": T.DurationPattern, "instant": T.InstantPattern, "localtime": T.LocalTimePattern,
            "localdate": T.LocalDatePattern, "localdatetime": T.LocalDateTimePattern, "annualdate": T.AnnualDatePattern}[ptype]  # fmt: skip


def _value(ptype, v):
    import pyoda_time as P

    if ptype == "offset":
        return P.Offset.from_seconds(v)
    if ptype == "duration":
        return P.Duration.from_nanoseconds(v)
    if ptype == "instant":
        return _inst(v)
    if ptype == "localtime":
        return P.LocalTime.from_nanoseconds_since_midnight(v)
    if ptype == "localdate":
        return P.LocalDate(v[0], v[1], v[2])
    if ptype == "localdatetime":
        return P.LocalDate(v[0], v[1], v[2]).at(P.LocalTime.from_nanoseconds_since_midnight(v[3]))
    if ptype == "annualdate":
        return P.AnnualDate(v[0], v[1])
    raise ValueError(ptype)


def _unvalue(ptype, x):
    if ptype == "offset":
        return x.seconds
    if ptype == "duration":
        return x.to_nanoseconds()
    if ptype == "instant":
        return _ns(x)
    if ptype == "localtime":
        return x.nanosecond_of_day
    if ptype == "localdate":
        return [x.year, x.month, x.day, x.calendar.id]
    if ptype == "localdatetime":
        return [x.year, x.month, x.day, x.time_of_day.nanosecond_of_day, x.calendar.id]
    if ptype == "annualdate":
        return [x.month, x.day]
    raise ValueError(ptype)


def _make_pattern(op, env):
    from pyoda_time._compatibility._culture_info import CultureInfo

    _, ptype, text, cname, cmode = op[:5]
    cls = _pattern_cls(ptype)
    if cmode == "current":
        return cls.create_with_current_culture(text)
    if cmode == "invariant":
        return cls.create_with_invariant_culture(text)
    return cls.create(text, _culture(cname, cmode))


def _zi_canon(zi):
    return [zi.name, _ns(zi.start) if zi.has_start else None, _ns(zi.end) if zi.has_end else None, zi.wall_offset.seconds, zi.savings.seconds]  # fmt: skip


def do_op(op, env):
    """Execute one query. Returns (answer, ident) where ident is None or (identity key, object)."""
    import pyoda_time as P

    k = op[0]
    if k == "date":
        cal = P.CalendarSystem.for_id(op[1])
        d = P.LocalDate(op[2], op[3], op[4], cal)
        iso = d.with_calendar(P.CalendarSystem.iso)
        return [iso.year, iso.month, iso.day, int(d.day_of_week), d.day_of_year, P.Period.days_between(P.LocalDate(1970, 1, 1), iso)], None  # fmt: skip
    if k == "ylen":
        cal = P.CalendarSystem.for_id(op[1])
        return [cal.get_days_in_year(op[2]), cal.is_leap_year(op[2]), cal.get_months_in_year(op[2])], None
    if k == "mlen":
        cal = P.CalendarSystem.for_id(op[1])
        return cal.get_days_in_month(op[2], op[3]), None
    if k == "fromdays":
        cal = P.CalendarSystem.for_id(op[1])
        d = P.LocalDate(1970, 1, 1).plus_days(op[2]).with_calendar(cal)
        return [d.year, d.month, d.day, d.day_of_year], None
    if k == "dera":
        cal = P.CalendarSystem.for_id(op[1])
        d = P.LocalDate(op[2], op[3], op[4], cal)
        from pyoda_time.calendars import Era

        e = d.era
        return [e.name, d.year_of_era, any(e == getattr(Era, p) for p in ERA_PROPS), cal.get_absolute_year(d.year_of_era, e)], None  # fmt: skip
    if k == "local":
        zone = P.DateTimeZoneProviders.tzdb[op[1]]
        ldt = P.LocalDate(op[2], op[3], op[4]).at(P.LocalTime.from_nanoseconds_since_midnight(op[5]))
        m = zone.map_local(ldt)
        z = ldt.in_zone_leniently(zone)
        return [m.count, _ns(z.to_instant()), z.offset.seconds, z.time_of_day.nanosecond_of_day], None
    if k == "cprov":
        # ["cprov", id, ns, how]: lookup through a provider over a caller-supplied source (shared by the threads of a run)
        prov = env.cprov if env is not None and getattr(env, "cprov", None) is not None else _custom_provider()
        z = prov[op[1]] if op[3] == "getitem" else prov.get_zone_or_none(op[1])
        if z is None:
            return None, None
        zi = z.get_zone_interval(_inst(op[2]))
        return [z.id, z.get_utc_offset(_inst(op[2])).seconds, zi.name], (("cprov", op[1]), z)
    if k == "dscan":
        # ["dscan", calendar, first day number (days since 1970-01-01 ISO), count]: consecutive days converted into the calendar
        cal = P.CalendarSystem.for_id(op[1])
        base = P.LocalDate(1970, 1, 1)
        out = []
        for n in range(op[2], op[2] + op[3]):
            try:
                d = base.plus_days(n).with_calendar(cal)
                out.append([d.year, d.month, d.day])
            except Exception as e:  # noqa: BLE001
                out.append(type(e).__name__)
        return [zlib.crc32(json.dumps(out).encode()), out[0], out[-1]], None
    if k == "yscan":
        # ["yscan", calendar, first year, count]: year and month lengths of a run of years, as one answer
        cal = P.CalendarSystem.for_id(op[1])
        out = []
        for y in range(op[2], op[2] + op[3]):
            nm = cal.get_months_in_year(y)
            out.append([y, cal.get_days_in_year(y), [cal.get_days_in_month(y, m) for m in range(1, nm + 1)]])
        return [len(out), zlib.crc32(json.dumps(out).encode()), out[0], out[-1]], None
    if k == "plusm":
        # date arithmetic with ordinary and extreme amounts: a call that fails must not leave anything behind
        cal = P.CalendarSystem.for_id(op[1])
        d = P.LocalDate(op[2], op[3], op[4], cal)
        r = {"m": d.plus_months, "y": d.plus_years, "d": d.plus_days, "w": d.plus_weeks}[op[5]](op[6])
        return [r.year, r.month, r.day], None
    if k == "conv":
        a = P.CalendarSystem.for_id(op[1])
        b = P.CalendarSystem.for_id(op[5])
        d = P.LocalDate(op[2], op[3], op[4], a).with_calendar(b)
        return [d.year, d.month, d.day, int(d.day_of_week)], None
    if k == "zis":
        # every interval of a zone between two instants: many lookups in neighbouring and distant periods within one query
        zone = P.DateTimeZoneProviders.tzdb[op[1]]
        out = []
        for zi in zone.get_zone_intervals(start=_inst(op[2]), end=_inst(op[3])):
            out.append([zi.name, _ns(zi.start) if zi.has_start else None, zi.wall_offset.seconds])
            if len(out) > 400:
                break
        return [len(out), zlib.crc32(json.dumps(out).encode())], None
    if k in ("zi", "zoff", "inzone", "ziu"):
        zone = P.DateTimeZoneProviders.tzdb[op[1]]
        inst = _inst(op[2])
        if k == "zi":
            return _zi_canon(zone.get_zone_interval(inst)), None
        if k == "ziu":
            # the zone the caching wrapper decorates (private attribute; only used for the oracle table)
            under = getattr(zone, "_time_zone", None)
            if under is None:
                return "no-underlying", None
            return _zi_canon(under.get_zone_interval(inst)), None
        if k == "zoff":
            return zone.get_utc_offset(inst).seconds, None
        z = inst.in_zone(zone)
        return [z.year, z.month, z.day, z.time_of_day.nanosecond_of_day, z.offset.seconds, z.zone.id], None
    if k == "tz":
        z = P.DateTimeZoneProviders.tzdb[op[1]]
        return [z.id, z.min_offset.seconds, z.max_offset.seconds], (("tz", op[1]), z)
    if k == "tznone":
        z = P.DateTimeZoneProviders.tzdb.get_zone_or_none(op[1])
        if z is None:
            return None, None
        return [z.id, z.min_offset.seconds, z.max_offset.seconds], (("tz", op[1]), z)
    if k == "tzids":
        ids = list(P.DateTimeZoneProviders.tzdb.ids)
        return [len(ids), zlib.crc32("|".join(ids).encode()), P.DateTimeZoneProviders.tzdb.version_id], None
    if k == "fixed":
        z = P.DateTimeZone.for_offset(P.Offset.from_seconds(op[1]))
        return [z.id, z.min_offset.seconds, z.get_utc_offset(_inst(0)).seconds], (("fixed-eq", op[1]), z)
    if k == "utc":
        z = P.DateTimeZone.utc
        return [z.id, z.min_offset.seconds], (("utc",), z)
    if k == "prov":
        p = P.DateTimeZoneProviders.tzdb
        return p.version_id, (("prov",), p)
    if k == "calid":
        c = P.CalendarSystem.for_id(op[1])
        return [c.id, c.name, c.min_year, c.max_year], (("cal", c.id), c)
    if k == "calprop":
        c = getattr(P.CalendarSystem, op[1])
        return [c.id, c.name, c.min_year, c.max_year], (("cal", c.id), c)
    if k == "hebrew":
        from pyoda_time.calendars import HebrewMonthNumbering

        c = P.CalendarSystem.get_hebrew_calendar(HebrewMonthNumbering(op[1]))
        return [c.id, c.name, c.min_year, c.max_year], (("cal", c.id), c)
    if k == "islamic":
        from pyoda_time.calendars import IslamicEpoch, IslamicLeapYearPattern

        c = P.CalendarSystem.get_islamic_calendar(IslamicLeapYearPattern(op[1]), IslamicEpoch(op[2]))
        return [c.id, c.name, c.min_year, c.max_year], (("cal", c.id), c)
    if k == "eras":
        from pyoda_time.calendars import Era

        c = P.CalendarSystem.for_id(op[1])
        es = list(c.eras()) if callable(c.eras) else list(c.eras)
        return [[e.name for e in es], [any(e == getattr(Era, p) for p in ERA_PROPS) for e in es]], None
    if k == "erayear":
        from pyoda_time.calendars import Era

        c = P.CalendarSystem.for_id(op[1])
        e = getattr(Era, op[2])
        return [c.get_min_year_of_era(e), c.get_max_year_of_era(e), c.get_absolute_year(1, e)], None
    if k in ("fmt", "parse", "fixedcur") and (op[4] == "current" if k != "fixedcur" else True):
        # the current culture is thread-local ambient state the caller sets himself: it is part of the query's arguments,
        # so it is set for this query only and restored afterwards
        from pyoda_time._compatibility._culture_info import CultureInfo

        prev = CultureInfo.current_culture
        CultureInfo.current_culture = CultureInfo.get_culture_info(op[3] if k != "fixedcur" else op[1])
        try:
            return _do_text(op, env)
        finally:
            CultureInfo.current_culture = prev
    if k in ("fmt", "parse"):
        return _do_text(op, env)
    if k == "fmtw":
        # ["fmtw", ptype, text, cultureA, cultureB, value]: create for A, re-target to B
        pat = _pattern_cls(op[1]).create(op[2], _culture(op[3], "cached")).with_culture(_culture(op[4], "cached"))
        return pat.format(_value(op[1], op[5])), None
    if k == "fmtcal":
        # ["fmtcal", text, culture, calendar id, [y, m, d]]: a date pattern re-targeted to another calendar
        cal = P.CalendarSystem.for_id(op[3])
        pat = _pattern_cls("localdate").create(op[1], _culture(op[2], "cached")).with_calendar(cal)
        d = P.LocalDate(op[4][0], op[4][1], op[4][2], cal)
        s = pat.format(d)
        r = pat.parse(s)
        return [s, r.success and _unvalue("localdate", r.value)], None
    if k == "winmap":
        from pyoda_time.time_zones._tzdb_date_time_zone_source import TzdbDateTimeZoneSource

        src = TzdbDateTimeZoneSource.default
        if op[1] == "t2w":
            return src.tzdb_to_windows_ids.get(op[2]), None
        if op[1] == "w2t":
            return src.windows_to_tzdb_ids.get(op[2]), None
        if op[1] == "aliases":
            return list(src.aliases.get(op[2], [])), None
        if op[1] == "aliases_idx":
            return list(src.aliases[op[2]]), None
        if op[1] == "aliases_in":
            return op[2] in src.aliases, None
        if op[1] == "aliases_len":
            return [len(src.aliases), len(list(src.aliases))], None
        return src.canonical_id_map.get(op[2]), None
    if k == "cobj":
        # ["cobj", slot, culture name, calendar kind or None, query]: a culture object the calling thread owns and keeps
        # customising over time; the query must answer as a freshly built culture in the same configuration would
        import importlib

        from pyoda_time._compatibility._culture_info import CultureInfo

        store = env.cobj if env is not None else {}
        keyc = (_thread_ident(), op[1])
        ent = store.get(keyc)
        if ent is None or ent["name"] != op[2]:
            ent = store[keyc] = {"name": op[2], "obj": CultureInfo(op[2]), "cal": None}
        if ent["cal"] != op[3] and op[3] is not None:
            ent["obj"].date_time_format.calendar = _make_calendar(op[3])
            ent["cal"] = op[3]
        elif ent["cal"] is not None and op[3] is None:
            ent = store[keyc] = {"name": op[2], "obj": CultureInfo(op[2]), "cal": None}  # back to stock: a new object
        ci = ent["obj"]
        q = op[4]
        if q[0] == "fmt":
            return _pattern_cls(q[1]).create(q[2], ci).format(_value(q[1], q[3])), None
        from pyoda_time.calendars import Era
        from pyoda_time.globalization._pyoda_format_info import _PyodaFormatInfo

        fi = _PyodaFormatInfo.get_instance(ci)
        w = q[1]
        if w.startswith("era:"):
            return fi.get_era_primary_name(getattr(Era, w[4:])), None
        if w.startswith("eranames:"):
            return list(fi.get_era_names(getattr(Era, w[9:]))), None
        v = getattr(fi, w)
        return list(v) if isinstance(v, (list, tuple)) else v, None
    if k == "dtfi":
        # ["dtfi", culture, calendar kind or None, field]: the culture's own date/time format info, read directly
        import importlib

        from pyoda_time._compatibility._culture_info import CultureInfo

        if op[2] is None:
            ci = CultureInfo.get_culture_info(op[1])
        else:
            ci = CultureInfo(op[1])
            ci.date_time_format.calendar = _make_calendar(op[2])
        d = ci.date_time_format
        v = d.get_era_name(1) if op[3] == "era1" else getattr(d, op[3])
        return list(v) if isinstance(v, (list, tuple)) else v, None
    if k in ("fmtcust", "namescust"):
        # a caller-customised (mutable) culture: same name as the stock one, different calendar
        import pyoda_time._compatibility as compat  # noqa: F401
        from pyoda_time._compatibility._culture_info import CultureInfo

        cname, calkind = (op[3], op[4]) if k == "fmtcust" else (op[1], op[2])
        ci = CultureInfo(cname)
        ci.date_time_format.calendar = _make_calendar(calkind)
        if k == "fmtcust":
            return _pattern_cls(op[1]).create(op[2], ci).format(_value(op[1], op[5])), None
        from pyoda_time.calendars import Era
        from pyoda_time.globalization._pyoda_format_info import _PyodaFormatInfo

        fi = _PyodaFormatInfo.get_instance(ci)
        w = op[3]
        if w.startswith("era:"):
            return fi.get_era_primary_name(getattr(Era, w[4:])), None
        if w.startswith("eranames:"):
            return list(fi.get_era_names(getattr(Era, w[9:]))), None
        v = getattr(fi, w)
        return list(v) if isinstance(v, (list, tuple)) else v, None
    if k == "iso":
        pat = getattr(_pattern_cls(op[1]), op[2])
        s = pat.format(_value(op[1], op[3]))
        r = pat.parse(s)
        return [s, r.success and _unvalue(op[1], r.value)], None
    if k == "names":
        from pyoda_time.calendars import Era
        from pyoda_time.globalization._pyoda_format_info import _PyodaFormatInfo

        fi = _PyodaFormatInfo.get_instance(_culture(op[1], op[2]))
        w = op[3]
        if w.startswith("era:"):
            return fi.get_era_primary_name(getattr(Era, w[4:])), None
        if w.startswith("eranames:"):
            return list(fi.get_era_names(getattr(Era, w[9:]))), None
        v = getattr(fi, w)
        return list(v) if isinstance(v, (list, tuple)) else v, None
    raise ValueError(op)


def _do_text(op, env):
    import pyoda_time as P

    k = op[0]
    if k == "fixedcur":
        z = P.DateTimeZone.for_offset(P.Offset.from_seconds(op[2]))
        return [z.id, z.get_utc_offset(_inst(0)).seconds], None
    pat = _make_pattern(op, env)
    if k == "fmt":
        return pat.format(_value(op[1], op[5])), None
    r = pat.parse(op[5])
    if r.success:
        return ["ok", _unvalue(op[1], r.value)], None
    return ["fail", type(r.exception).__name__], None


_CAL_KINDS = {"gregorian-us": ("_gregorian_calendar", "GregorianCalendar", "USEnglish"),
              "gregorian-mefrench": ("_gregorian_calendar", "GregorianCalendar", "MiddleEastFrench"),
              "gregorian-arabic": ("_gregorian_calendar", "GregorianCalendar", "Arabic"),
              "gregorian": ("_gregorian_calendar", "GregorianCalendar"), "hijri": ("_hijri_calendar", "HijriCalendar"),
              "persian": ("_persian_calendar", "PersianCalendar"), "umalqura": ("_um_al_qura_calendar", "UmAlQuraCalendar"),
              "thai": ("_thai_buddhist_calendar", "ThaiBuddhistCalendar")}  # fmt: skip


def _make_calendar(kind):
    import importlib

    spec = _CAL_KINDS[kind]
    cls = getattr(importlib.import_module("pyoda_time._compatibility." + spec[0]), spec[1])
    if len(spec) > 2:
        from pyoda_time._compatibility._gregorian_calendar_types import GregorianCalendarTypes

        return cls(getattr(GregorianCalendarTypes, spec[2]))
    return cls()


def _thread_ident():
    import _thread

    return _thread.get_ident()


_CPROV_IDS = ["Test/Z0", "Test/Z1", "Test/Z2", "Test/Z3", "legacy/Z0", "legacy/Z1", "legacy/Z2", "Alt/Z3"]


def _custom_provider():
    """A DateTimeZoneCache over a caller-supplied source. Some ids are aliases: as the interface allows, the source answers
    them with a zone that reports the *canonical* id - here deliberately with different rules, so a provider that mixes the
    two up is visible in the offsets."""
    import pyoda_time as P
    from pyoda_time.testing.time_zones import SingleTransitionDateTimeZone
    from pyoda_time.time_zones import DateTimeZoneCache

    class Source:
        def __init__(self):
            self.calls = []

        @property
        def version_id(self):
            return "verif-custom-1"

        def get_ids(self):
            return list(_CPROV_IDS)

        def get_system_default_id(self):
            return None

        def for_id(self, id_):
            self.calls.append(id_)
            n = int(id_[-1])
            t = P.Instant.from_unix_time_seconds(1_000_000_000 + n * 86400 * 400)
            if id_.startswith("Test/"):
                return SingleTransitionDateTimeZone(t, n, n + 1, id_)
            return SingleTransitionDateTimeZone(t, n + 5, n + 7, "Test/Z%d" % n)

    return DateTimeZoneCache(Source())


def _exc_site(e):
    site = None
    for fs in traceback.extract_tb(e.__traceback__):
        if fs.filename.startswith(bootstrap.PKG_PREFIX):
            site = f"{fs.filename[len(bootstrap.PKG_PREFIX):]}:{fs.name}"
    return site


def eval_op(op, env=None):
    try:
        ans, ident = do_op(op, env)
        return ans, ident, None
    except Exception as e:  # noqa: BLE001
        return ["EXC", type(e).__name__], None, (_exc_site(e), str(e)[:160])


# ---------------------------------------------------------------------------------------------------------------------
# pool generation (pure function of the master seed) and cold oracle table


def _alias_years(rng, lo, hi, n):
    y0 = rng.randrange(lo, hi + 1)
    if rng.random() < 0.3:
        # boundary slots of the 1024-entry table (first/last slot and their neighbours)
        y0 = (y0 & ~1023) + rng.choice([1023, 1023, 0, 1022, 1])
        if not lo <= y0 <= hi:
            y0 = min(max(y0, lo), hi)
    ys = {y0}
    ks = list(range(-20, 21))
    rng.shuffle(ks)
    for kk in ks:
        y = y0 + 1024 * kk
        if lo <= y <= hi:
            ys.add(y)
        if len(ys) >= n:
            break
    return sorted(ys)


def _alias_arith(rng, cal, y):
    """A month addition whose intermediate target lies one validator period (131072 years) away from real years near y. In
    the Hebrew calendars a 19-year cycle has 235 months, so 131072 years are 6898 cycles and about 10 more years."""
    sgn = rng.choice([-1, 1])
    if cal.startswith("Hebrew"):
        amt = sgn * (235 * 6898 + rng.randrange(0, 260))
    else:
        amt = sgn * 131072 * 12 + rng.randrange(-13, 14)
    return ["plusm", cal, y, rng.randrange(1, 13), rng.randrange(1, 29), "m", amt]


def build_pool(master_seed, scale=1.0):
    rng = random.Random(master_seed ^ 0xC13)
    pool = {"cal": {}, "zone": {}, "prov": [], "calid": [], "text": {}, "iso": [], "names": []}
    for cal, (lo, hi) in CAL_RANGE.items():
        groups = []
        for _ in range(max(2, int(4 * scale))):
            ys = _alias_years(rng, lo, hi, 5)
            if rng.random() < 0.3:
                ys = ys + [y + 1 for y in ys if y + 1 <= hi][:2]  # Hebrew: computing year y also reads year y+1's slot
            ops = []
            for y in ys:
                m = rng.randrange(1, 13)
                d = rng.randrange(1, 29)
                ops.append(["date", cal, y, m, d])
                ops.append(["ylen", cal, y])
                if rng.random() < 0.5:
                    ops.append(["mlen", cal, y, rng.randrange(1, 13)])
                if rng.random() < 0.3:
                    ops.append(["dera", cal, y, m, d])
                if rng.random() < 0.25:
                    ops.append(["conv", cal, y, m, d, rng.choice(list(CAL_RANGE))])
                if rng.random() < 0.35:
                    # amounts: small; exactly the distances at which keys alias in the year cache (1024 years: same slot;
                    # 131072 years: same slot and same 7-bit validator); far out of range
                    unit = rng.choice(["m", "m", "y", "d"])
                    per = {"m": 12, "y": 1, "d": 365}[unit]
                    amt = rng.choice([rng.randrange(-30, 30), 1024 * per, -1024 * per, 131072 * per, -131072 * per,
                                      131072 * per + rng.randrange(-14, 14), -131072 * per + rng.randrange(-14, 14),
                                      262144 * per + rng.randrange(-14, 14), 10**7, -(10**7), 2**31, -(2**31)])  # fmt: skip
                    ops.append(["plusm", cal, y, rng.randrange(1, 13), d, unit, amt])
            # day-number -> date near the start of aliasing ISO years
            for y in ys[:3]:
                if -9000 < y < 9000:
                    from props.c19 import days_from_civil

                    iso_y = y if cal in ("ISO", "Gregorian", "Julian") else rng.randrange(-2000, 4000)
                    ops.append(["fromdays", cal, days_from_civil(iso_y, 1, 1) + rng.randrange(-3, 400)])
            groups.append(ops)
        if True:
            # a failing (or extreme) arithmetic call whose intermediate year lies exactly one validator period (131072 years:
            # same slot AND same 7-bit validator) away from real years, with observers on the real years around it
            for _ in range(max(1, int(2 * scale))):
                y = rng.randrange(max(lo + 14, 14), hi - 14)
                ops = []
                for _k in range(6):
                    ops.append(_alias_arith(rng, cal, y))
                ops.append(["plusm", cal, y, rng.randrange(1, 13), 1, "y", rng.choice([-1, 1]) * 131072])
                for _k in range(6):
                    ops.append(["yscan", cal, y - 12, 25])  # repeated so that it is likely to be drawn
                for j in (-1, 0, 1):
                    ops.append(["ylen", cal, y + j])
                    ops.append(["date", cal, y + j, rng.choice([3, 4, 9, 10]), rng.randrange(1, 29)])
                groups.append(ops)
        if cal.startswith("Hebrew"):
            # dedicated groups around the ends of the 1024-year blocks: the Hebrew calculator also looks at the neighbouring
            # years' slots, so years 1023, 1024 and 1025 apart meet in the table
            for _ in range(max(2, int(3 * scale))):
                m = rng.randrange(1, 9)
                base = 1024 * m
                ys = [y for y in (base - 1, base, base + 1, base + 1023, base + 1024, base + 1025, base - 1024, base - 1025, base - 1023) if lo < y < hi]
                ops = []
                for y in ys:
                    mm = rng.randrange(1, 13)
                    ops.append(["date", cal, y, mm, rng.randrange(1, 29)])
                    ops.append(["ylen", cal, y])
                    ops.append(["mlen", cal, y, rng.choice([2, 3, 8, 9])])
                groups.append(ops)
        pool["cal"][cal] = groups
    periods_lo, periods_hi = -4371222 >> 5, 2932896 >> 5
    for zid in TZ_IDS:
        names = [zid] + TZ_ALIASES.get(zid, [])
        groups = []
        for _ in range(max(2, int(5 * scale))):
            c = rng.random()
            if c < 0.6:
                p0 = rng.randrange((-25567) >> 5, (24837) >> 5)  # 1900..2038: the precalculated part
            elif c < 0.85:
                p0 = rng.randrange((24837) >> 5, (60000) >> 5)  # tail zone
            else:
                p0 = rng.randrange(periods_lo, periods_hi + 1)
            if rng.random() < 0.2:
                p0 = (p0 & ~511) + rng.choice([511, 0, 510, 1])  # boundary slots of the 512-entry table
            ps = {p0}
            ks = list(range(-260, 260))
            rng.shuffle(ks)
            for kk in ks:
                p = p0 + 512 * kk
                if periods_lo <= p <= periods_hi:
                    ps.add(p)
                if len(ps) >= 5:
                    break
            # bias: two of the aliases inside 1900..2040 when possible
            ops = []
            for p in sorted(ps):
                for _ in range(2):
                    day = (p << 5) + rng.randrange(32)
                    day = min(max(day, -4371222), 2932896)
                    ns = day * NS_DAY + rng.randrange(NS_DAY)
                    nm = rng.choice(names)
                    ops.append([rng.choice(["zi", "zi", "zoff", "inzone"]), nm, ns])
                    if rng.random() < 0.25 and -719000 < day < 2900000:
                        from props.c19 import civil_from_days

                        yy, mm, dd = civil_from_days(day)
                        if -9990 < yy < 9990:
                            ops.append(["local", nm, yy, mm, dd, rng.randrange(NS_DAY)])
            groups.append(ops)
        pool["zone"][zid] = groups
    # instants at and around real transitions (and their cache aliases 512 periods away): the boundary values of the
    # interval lookup
    for zid in TZ_IDS:
        trs = _TRANSITIONS.get(zid) or []
        names = [zid] + TZ_ALIASES.get(zid, [])
        for _ in range(max(2, int(4 * scale)) if trs else 0):
            t = rng.choice(trs)
            day0 = (t // NS_DAY) * NS_DAY
            offs = [0, -1, 1, rng.randrange(1, 3600 * 10**9), -rng.randrange(1, 3600 * 10**9), day0 + NS_DAY - 1 - t, day0 - t,
                    rng.randrange(0, NS_DAY) + day0 - t]  # fmt: skip
            ops = []
            for kk in rng.sample([0, 0, 1, -1, 2, -2, 3, -3], 4):
                base = t + kk * 512 * 32 * NS_DAY
                for o in rng.sample(offs, 4):
                    ns = base + o
                    if -4371222 * NS_DAY <= ns <= 2932896 * NS_DAY:
                        ops.append([rng.choice(["zi", "zi", "zoff", "inzone"]), rng.choice(names), ns])
            pool["zone"][zid].append(ops)
    for zid in TZ_IDS:
        for _ in range(2):
            a = rng.randrange(-3000, 3000) * 32 * NS_DAY
            span = rng.choice([400, 4000, 20000]) * NS_DAY
            pool["zone"][zid][rng.randrange(len(pool["zone"][zid]))].append(["zis", zid, a, a + span])
    dbl = list(_DOUBLE)
    rng.shuffle(dbl)
    for zid, t1, t2 in dbl[: int(10 * scale)]:
        p_end = (((t2 // NS_DAY) >> 5) + 1) * 32 * NS_DAY
        p_start = ((t1 // NS_DAY) >> 5) * 32 * NS_DAY
        pts = [t2, t2 + 1, (t2 + p_end) // 2, p_end - 1, t1, t1 + 1, (t1 + t2) // 2, t2 - 1, t1 - 1, p_start, (p_start + t1) // 2]
        ops = [[rng.choice(["zi", "zi", "zoff", "inzone"]), zid, ns] for ns in pts]
        pool["zone"].setdefault(zid, []).append(ops)
        pool["zone"][zid].append([list(o) for o in ops])  # twice: more likely to be drawn
    for zid in TZ_IDS:
        for nm in [zid] + TZ_ALIASES.get(zid, []):
            pool["prov"].append(["tz", nm])
            pool["prov"].append(["tznone", nm])
    pool["prov"] += [["tznone", "No/Such_Zone"], ["tznone", "UTC+05"], ["tz", "UTC-03:30"], ["tzids"], ["utc"], ["prov"]]
    for s in (0, 3600, -3600, 19800, 1800, 45900, 64800, -64800, 37, 7):
        pool["prov"].append(["fixed", s])
    for cid in _CPROV_IDS + ["Test/Nope", "UTC+02"]:
        for ns in (0, 1_000_000_000 * 10**9 + 3 * 86400 * 400 * 10**9, 2 * 10**18):
            pool["prov"].append(["cprov", cid, ns, rng.choice(["getitem", "getitem", "none"])])
    for cn in ("fi-FI", "en-US", "da-DK", "fr-FR"):
        for s in (45900, 19800, -12600):
            pool["prov"].append(["fixedcur", cn, s])
    for cid in CAL_RANGE:
        pool["calid"].append(["calid", cid])
        pool["calid"].append(["eras", cid])
    for pr in CAL_PROPS:
        pool["calid"].append(["calprop", pr])
    pool["calid"] += [["hebrew", 1], ["hebrew", 2]] + [["islamic", p, e] for p in (1, 2, 3, 4) for e in (1, 2)]
    pool["calid"] += [["erayear", "ISO", "common"], ["erayear", "ISO", "before_common"], ["erayear", "Julian", "common"],
                      ["erayear", "Coptic", "anno_martyrum"], ["erayear", "Hebrew Civil", "anno_mundi"],
                      ["erayear", "Persian Simple", "anno_persico"], ["erayear", "Um Al Qura", "anno_hegirae"],
                      ["erayear", "Badi", "bahai"], ["erayear", "Hijri Civil-Base15", "anno_hegirae"]]  # fmt: skip

    def rand_value(ptype):
        if ptype == "offset":
            return rng.choice([0, 3600, -3600, 19800, -12600, 45296, -1, 64800])
        if ptype == "duration":
            return rng.choice([0, 1, -1, 123456789012345, -98765432109876, 86400 * 10**9, 3600 * 10**9 + 5])
        if ptype == "instant":
            return rng.choice([0, 1709211845 * 10**9 + 123000000, -(10**18), 946684800 * 10**9])
        if ptype == "localtime":
            return rng.choice([0, 13 * 3600 * 10**9 + 4 * 60 * 10**9 + 5 * 10**9, 86399999999999, 12 * 3600 * 10**9, 3723 * 10**9 + 456000000])  # fmt: skip
        if ptype == "localdate":
            return rng.choice([[2024, 2, 29], [1999, 12, 31], [1, 1, 1], [2031, 7, 6], [1900, 3, 1], [2023, 9, 24]])
        if ptype == "localdatetime":
            return rng.choice([[2024, 2, 29, 13 * 3600 * 10**9 + 245 * 10**9], [1999, 12, 31, 86399 * 10**9], [2031, 7, 6, 0], [1969, 7, 20, 73080 * 10**9 + 123456789]])  # fmt: skip
        if ptype == "annualdate":
            return rng.choice([[2, 29], [12, 31], [1, 1], [7, 14]])

    cultures = list(CULTURES)
    if _ALL_CULTURES:
        extra = [c for c in _ALL_CULTURES if c not in cultures and c]
        rng.shuffle(extra)
        cultures += extra[: int(40 * scale)]
    for cname in cultures:
        ops = []
        for ptype, pats in PATTERNS.items():
            for text in rng.sample(pats, min(len(pats), 2 if cname in CULTURES else 1)):
                cmode = rng.choice(["cached", "cached", "cached", "new", "current"])
                ops.append(["fmt", ptype, text, cname, cmode, rand_value(ptype)])
        pool["text"][cname] = ops
        for w in rng.sample(NAME_FIELDS, 6):
            pool["names"].append(["names", cname, rng.choice(["cached", "cached", "new"]), w])
    for ptype, pats in PATTERNS.items():
        for text in pats[:3]:
            pool["text"].setdefault("", []).append(["fmt", ptype, text, "", "invariant", rand_value(ptype)])
    # same pattern text re-targeted between cultures, and date patterns re-targeted to other calendars
    for _ in range(int(60 * scale)):
        ptype = rng.choice(list(PATTERNS))
        a, b = rng.sample(CULTURES, 2)
        pool["text"].setdefault(a, []).append(["fmtw", ptype, rng.choice(PATTERNS[ptype]), a, b, rand_value(ptype)])
    for _ in range(int(40 * scale)):
        cal = rng.choice(list(CAL_RANGE))
        lo, hi = CAL_RANGE[cal]
        y = rng.randrange(max(lo, 1300), min(hi, 1500) + 1) if cal == "Um Al Qura" else rng.randrange(max(lo, 2), min(hi, 9000))
        cn = rng.choice(CULTURES)
        pool["text"].setdefault(cn, []).append(["fmtcal", rng.choice(["uuuu-MM-dd", "d MMMM yyyy", "yyyy MM dd gg"]), cn, cal, [y, rng.randrange(1, 13), rng.randrange(1, 29)]])
    # customised cultures (same name as a stock culture, different calendar) next to the stock ones
    for cn, kinds in (("th-TH", ["gregorian", "thai"]), ("fa-IR", ["gregorian", "persian"]), ("ar-SA", ["gregorian", "umalqura", "hijri"]),
                      ("en-US", ["gregorian", "gregorian-us", "gregorian-arabic"]), ("he-IL", ["gregorian"]),
                      ("fr-FR", ["gregorian", "gregorian-us", "gregorian-mefrench"]), ("de-DE", ["gregorian-us", "gregorian"])):  # fmt: skip
        for kind in kinds:
            for text in ("d MMMM yyyy gg", "yyyy MM dd gg", "D"):
                pool["text"].setdefault(cn, []).append(["fmtcust", "localdate", text, cn, kind, rand_value("localdate")])
                pool["text"].setdefault(cn, []).append(["fmt", "localdate", text, cn, "cached", rand_value("localdate")])
            for w in ("era:common", "eranames:common", "era:anno_hegirae", "era:anno_persico", "long_month_names", "short_day_names"):
                pool["names"].append(["namescust", cn, kind, w])
                pool["names"].append(["names", cn, "cached", w])
        for kind in [None] + kinds:
            for fld in ("month_names", "abbreviated_month_names", "day_names", "abbreviated_day_names", "month_genitive_names",
                        "long_date_pattern", "short_date_pattern", "month_day_pattern", "date_separator", "era1"):  # fmt: skip
                pool["names"].append(["dtfi", cn, kind, fld])
        # the same caller-owned culture object re-customised over time (slot 0/1 of the calling thread)
        for slot in (0, 1):
            for kind in [None] + kinds:
                pool["text"].setdefault(cn, []).append(["cobj", slot, cn, kind, ["fmt", "localdate", "d MMMM yyyy gg", rand_value("localdate")]])
                pool["text"].setdefault(cn, []).append(["cobj", slot, cn, kind, ["names", rng.choice(["era:common", "eranames:common", "era:anno_hegirae", "era:anno_persico", "long_month_names"])]])
                pool["text"].setdefault(cn, []).append(["cobj", slot, cn, kind, ["names", "era:common"]])
    for zid in TZ_IDS:
        pool["prov"].append(["winmap", "t2w", zid])
        pool["prov"].append(["winmap", "canon", rng.choice([zid] + TZ_ALIASES.get(zid, []))])
        pool["prov"].append(["winmap", "aliases", zid])
    for key in ("Europe/London", "No/Such_Zone", "GB", "Asia/Kolkata", "Nope"):
        pool["prov"].append(["winmap", "aliases_idx", key])
        pool["prov"].append(["winmap", "aliases_in", key])
    pool["prov"].append(["winmap", "aliases_len", None])
    for w in ("GMT Standard Time", "Eastern Standard Time", "Tokyo Standard Time", "Nepal Standard Time", "No Such Zone"):
        pool["prov"].append(["winmap", "w2t", w])
    # pattern texts that are rejected: a failed creation must leave nothing behind in the per-culture pattern caches
    for ptype, bad in (("localdate", "yyyy-MM-dd'open"), ("localtime", "HH:mm:ss.ffffffffff"), ("offset", "%"), ("localdatetime", ""),
                       ("duration", "xyz"), ("instant", "uuuu-MM-dd'T"), ("annualdate", "yyyy")):  # fmt: skip
        for cn in rng.sample(CULTURES, 3):
            pool["text"].setdefault(cn, []).append(["fmt", ptype, bad, cn, "cached", rand_value(ptype)])
    for ptype, names in ISO_SINGLETONS.items():
        for nm in names:
            pool["iso"].append(["iso", ptype, nm, rand_value(ptype)])
            pool["iso"].append(["iso", ptype, nm, rand_value(ptype)])
    return pool


def pool_ops(pool):
    for groups in pool["cal"].values():
        for g in groups:
            yield from g
    for groups in pool["zone"].values():
        for g in groups:
            yield from g
            for op in g:
                if op[0] == "zi":
                    yield ["ziu", op[1], op[2]]
    yield from pool["prov"]
    yield from pool["calid"]
    for ops in pool["text"].values():
        yield from ops
    yield from pool["iso"]
    yield from pool["names"]


def build_sweep_pairs(pool, master_seed, n_pairs):
    """Pairs (warm-up, A, B) for the systematic part: thread 0 runs warm-up then A and is pre-empted once, at every
    scheduling point of A in turn, by thread 1 running B to completion; afterwards thread 0 repeats A and B to observe
    damage that was cached. Pairs are chosen so that A and B meet in one piece of shared state."""
    rng = random.Random(master_seed ^ 0x53EE9)
    pairs = []

    def add(kind, warm, a, b, prewarm, obs=()):
        pairs.append({"kind": kind, "warm": warm, "a": a, "b": b, "prewarm": prewarm, "obs": list(obs)})

    cals = list(pool["cal"])
    # per-kind quotas (out of 100, scaled to n_pairs) so that no kind is crowded out by the others
    base = {"year": 10, "hebrew": 16, "failing": 8, "zone": 12, "first": 10, "eras": 6, "current": 6, "format": 10, "cobj": 8, "locale": 10, "iso": 4}
    quota = {k: max(1, round(v * n_pairs / 100)) for k, v in base.items()}
    kind_key = {"year-cache alias": "year", "hebrew look-ahead": "hebrew", "failing arithmetic as history": "failing",
                "zone-cache alias": "zone", "first touch": "first", "first touch (eras)": "eras", "current culture of two threads": "current",
                "format info": "format", "culture customised between uses": "cobj", "same locale, other calendar": "locale",
                "iso singleton": "iso"}  # fmt: skip
    for _ in range(quota["year"] * 3):  # generous: unusable draws are skipped, the quota is applied below
        cal = rng.choice(cals)
        g = rng.choice(pool["cal"][cal])
        ops = [o for o in g if o[0] in ("date", "ylen", "conv")]
        if len(ops) < 2:
            continue
        a = rng.choice(ops)
        bs = [o for o in ops if o[2] != a[2] and (o[2] - a[2]) % 1024 == 0]
        if not bs:
            continue
        b = rng.choice(bs)
        warm = rng.choice([[], [b], [a], []])
        add("year-cache alias", warm, a, b, rng.choice([["cal"], ["cal"], []]))
    lo, hi = CAL_RANGE["Hebrew Civil"]
    for _ in range(quota["hebrew"] * 3):  # generous: unusable draws are skipped, the quota is applied below
        # the Hebrew calculator looks ahead at next year's slot of the global cache shared by both month numberings
        y = rng.randrange(lo + 1, hi - 1)
        if rng.random() < 0.4:
            y = min(max(1024 * rng.randrange(1, 9) + rng.choice([-1, 0, 1, -2]), lo + 1), hi - 2)
        ks = [k for k in (-3, -2, -1, 1, 2, 3) if lo <= y + 1 + 1024 * k <= hi]
        if not ks:
            continue
        z = y + 1 + 1024 * rng.choice(ks)
        ca, cb = rng.choice(["Hebrew Civil", "Hebrew Scriptural"]), rng.choice(["Hebrew Civil", "Hebrew Scriptural"])
        m = rng.randrange(1, 13)
        a = rng.choice([["date", ca, y, m, rng.randrange(1, 29)], ["ylen", ca, y], ["mlen", ca, y, rng.choice([2, 3, 8, 9])]])
        b = rng.choice([["date", cb, z, m, rng.randrange(1, 29)], ["ylen", cb, z]])
        warm = rng.choice([[["ylen", ca, y + 1]], [["ylen", ca, y + 1]], [["ylen", ca, y + 1]], [], [["ylen", cb, z]]])
        r = rng.random()
        if r < 0.2:
            d = rng.choice([1023, -1023, 1025, -1025, 1024, -1024])
            if lo < y + d < hi:
                warm = [["ylen", cb, y + d]]
        elif r < 0.35:
            warm = [_alias_arith(rng, cb, y)]
        h1, h2 = (2, 3) if ca == "Hebrew Civil" else (8, 9)
        # whatever A was, look at the two months whose length is kept in the cache entry's flag bits afterwards
        add("hebrew look-ahead", warm, a, b, ["cal"], obs=[["mlen", ca, y, h1], ["mlen", ca, y, h2]])
    for _ in range(quota["failing"] * 3):  # generous: unusable draws are skipped, the quota is applied below
        # a failing arithmetic call (or three) as history, a broad look at the years around it afterwards
        cal = rng.choice(["Hebrew Civil", "Hebrew Scriptural", "Hebrew Civil", rng.choice(cals)])
        lo2, hi2 = CAL_RANGE[cal]
        if hi2 - lo2 < 60:
            continue
        y = rng.randrange(max(lo2 + 14, 14), hi2 - 14)
        warm = [_alias_arith(rng, cal, y) for _ in range(3)]
        a = ["yscan", cal, y - 12, 25]
        b = rng.choice([["ylen", cal, y], _alias_arith(rng, cal, y)])
        add("failing arithmetic as history", warm, a, b, ["cal"])
    zids = list(pool["zone"])
    for _ in range(quota["zone"] * 3):  # generous: unusable draws are skipped, the quota is applied below
        zid = rng.choice(zids)
        g = rng.choice(pool["zone"][zid])
        ops = [o for o in g if o[0] in ("zi", "zoff", "inzone")]
        if len(ops) < 2:
            continue
        a = rng.choice(ops)
        pa = (a[2] // NS_DAY) >> 5
        bs = [o for o in ops if ((o[2] // NS_DAY) >> 5) != pa and (((o[2] // NS_DAY) >> 5) - pa) % 512 == 0]
        if not bs:
            continue
        b = rng.choice(bs)
        b = [b[0], a[1], b[2]] if rng.random() < 0.7 else b  # same zone object unless an alias is wanted
        add("zone-cache alias", rng.choice([[], [b], []]), a, b, ["prov", "zones"])
    first = [o for o in pool["prov"] if o[0] in ("tz", "tznone", "fixed", "fixedcur", "utc", "cprov")] + [o for o in pool["calid"]]
    for _ in range(quota["first"] * 3):  # generous: unusable draws are skipped, the quota is applied below
        a = rng.choice(first)
        same = [o for o in first if o[0] == a[0] and o[1:2] == a[1:2]]
        b = rng.choice(same) if rng.random() < 0.6 else rng.choice(first)
        add("first touch", [], a, b, ["prov"] if rng.random() < 0.9 else [])
    eraops = [o for o in pool["calid"] if o[0] in ("eras", "erayear")] + [o for g in pool["cal"].values() for grp in g for o in grp if o[0] == "dera"]
    eraops += [o for o in pool["names"] if o[0] == "names" and (o[3].startswith("era:") or o[3].startswith("eranames:"))]
    for _ in range(quota["eras"] * 3):  # generous: unusable draws are skipped, the quota is applied below
        # first use of an era from two threads at once
        if len(eraops) < 2:
            break
        add("first touch (eras)", [], rng.choice(eraops), rng.choice(eraops), rng.choice([[], ["cal"]]))
    cur = [o for ops in pool["text"].values() for o in ops if o[0] in ("fmt", "parse") and o[4] == "current"]
    for _ in range(quota["current"] * 3):  # generous: unusable draws are skipped, the quota is applied below
        # two threads, each formatting under its own current culture
        if len(cur) < 2:
            break
        a = rng.choice(cur)
        others = [o for o in cur if o[3] != a[3]]
        if others:
            add("current culture of two threads", [], a, rng.choice(others), rng.choice([[], ["cultures"]]))
    texts = [o for ops in pool["text"].values() for o in ops if o[0] in ("fmt", "fmtw", "fmtcust", "parse")]
    names = pool["names"]
    for _ in range(quota["format"] * 3):  # generous: unusable draws are skipped, the quota is applied below
        a = rng.choice(texts + names)
        cand = texts if a[0] != "names" and a[0] != "namescust" else names
        cn = a[3] if a[0] in ("fmt", "parse", "fmtw", "fmtcust") else a[2] if a[0] == "cobj" else a[1]
        same = [o for o in cand if (o[3] if o[0] in ("fmt", "parse", "fmtw", "fmtcust") else o[2] if o[0] == "cobj" else o[1]) == cn]
        b = rng.choice(same) if rng.random() < 0.5 and same else rng.choice(cand)
        add("format info", rng.choice([[], [], [b]]), a, b, rng.choice([[], ["cultures"]]))
    cobjs = [o for ops in pool["text"].values() for o in ops if o[0] == "cobj"]
    for _ in range(quota["cobj"] * 3):  # generous: unusable draws are skipped, the quota is applied below
        # one caller-owned culture object used, re-customised, used again (history only: shows at every pre-emption point)
        if not cobjs:
            break
        a = rng.choice(cobjs)
        same = [o for o in cobjs if o[1] == a[1] and o[2] == a[2] and o[3] != a[3]]
        if not same:
            continue
        w1 = rng.choice(same)
        warm = [w1] if rng.random() < 0.6 else [rng.choice(same), w1]
        add("culture customised between uses", warm, a, rng.choice(cobjs), [])
    cust = [o for o in texts + names if o[0] in ("fmtcust", "namescust", "cobj") or (o[0] == "dtfi" and o[2] is not None)]
    for _ in range(quota["locale"] * 3):  # generous: unusable draws are skipped, the quota is applied below
        if not cust:
            break
        b = rng.choice(cust)
        cn = b[3] if b[0] == "fmtcust" else b[1] if b[0] in ("namescust", "dtfi") else b[2]
        stock = [o for o in texts if o[0] == "fmt" and o[3] == cn and o[4] == "cached"] + [o for o in names if o[0] == "names" and o[1] == cn]
        stock += [o for o in names if o[0] == "dtfi" and o[1] == cn and o[2] is None] * 2
        if not stock:
            continue
        a = rng.choice(stock)
        if rng.random() < 0.5:
            a, b = b, a
        add("same locale, other calendar", [], a, b, rng.choice([[], ["cultures"]]))
    for _ in range(quota["iso"] * 3):  # generous: unusable draws are skipped, the quota is applied below
        a = rng.choice(pool["iso"])
        same = [o for o in pool["iso"] if o[1] == a[1]]
        add("iso singleton", [], a, rng.choice(same), [])
    out = []
    taken = {}
    for pr in pairs:
        kk = kind_key.get(pr["kind"], "first")
        if taken.get(kk, 0) < quota[kk]:
            taken[kk] = taken.get(kk, 0) + 1
            out.append(pr)
    return out


def _sweep_spec(pair, i, seed):
    nwarm = len(pair["warm"])
    return {
        "prop": PROP, "seed": seed, "mode": "sweep", "families": [pair["kind"]],
        "threads": [pair["warm"] + [pair["a"], pair["a"], pair["b"]] + list(pair.get("obs") or []), [pair["b"]]],
        "strategy": {"kind": "scripted", "switches": [[-1, 0, 0, 0], [0, nwarm, i, 1]]},
        "prewarm": pair["prewarm"],
    }  # fmt: skip


def _sweep_len(pair):
    """Dry run (serial) of thread 0 alone: the scheduling points inside A, and which of them lie in inventory files."""
    spec = _sweep_spec(pair, 0, 1)
    spec["threads"] = [spec["threads"][0][: len(pair["warm"]) + 1]]
    spec["strategy"] = {"kind": "serial"}
    spec["mode"] = "hist"
    spec["want_op_events"] = True
    spec["record_trace"] = True
    r = execute(spec)
    evs = {oi: ev for ti, oi, ev in r.get("op_events", []) if ti == 0}
    na = len(pair["warm"])
    n = evs.get(na, 0)
    before = sum(evs.get(i, 0) for i in range(na))
    tr = (r.get("trace") or [])[before : before + n]
    hot = [i + 1 for i, (_, rel, _ln) in enumerate(tr) if rel in HOT_FILES or rel == "<lock>"]
    # a race window is a code location, not an event index: group the inventory-file points by (file, line)
    by_line = {}
    for i, (_, rel, ln) in enumerate(tr):
        if rel in HOT_FILES or rel == "<lock>":
            by_line.setdefault(f"{rel}:{ln}", []).append(i + 1)
    return {"n": n, "hot": hot, "by_line": list(by_line.values())}


def build_sweeps(pool, master_seed, n_pairs, max_hot, max_cold, workers):
    pairs = build_sweep_pairs(pool, master_seed, n_pairs)
    rng = random.Random(master_seed ^ 0xD1CE)
    cases = []
    exhaustive_hot = 0
    lines_covered = 0
    lens = []
    hots = []
    dry = bootstrap.parallel_map(_sweep_len, pairs, workers, 120)
    for pi, pair in enumerate(pairs):
        r = dry[pi]
        if not isinstance(r, dict) or "n" not in r or r["n"] <= 0:
            continue
        n, hot = r["n"], r["hot"]
        lens.append(n)
        hots.append(len(hot))
        if len(hot) <= max_hot:
            pos = set(hot)
            exhaustive_hot += 1
        else:
            # every distinct inventory-file line at its first occurrence and at one other (seeded) occurrence, then fill up
            pos = set()
            groups = r.get("by_line") or []
            for g in groups:
                pos.add(g[0])
            for g in groups:
                if len(pos) >= max_hot:
                    break
                if len(g) > 1:
                    pos.add(rng.choice(g[1:]))
            lines_covered += 1 if len(pos) >= len(groups) else 0
            rest = [i for i in hot if i not in pos]
            if len(pos) < max_hot and rest:
                pos |= set(rng.sample(rest, min(len(rest), max_hot - len(pos))))
        cold = [i for i in range(1, n + 1) if i not in pos]
        pos |= set(rng.sample(cold, min(len(cold), max_cold)))
        cases += [(pi, i) for i in sorted(pos)]
    return pairs, cases, {"pairs": len(pairs), "cases": len(cases), "pairs_with_every_inventory_file_position": exhaustive_hot, "further_pairs_with_every_inventory_file_line": lines_covered,
                          "max_inventory_positions_per_pair": max_hot, "other_positions_sampled_per_pair": max_cold,
                          "median_points_in_A": sorted(lens)[len(lens) // 2] if lens else 0,
                          "median_inventory_points_in_A": sorted(hots)[len(hots) // 2] if hots else 0}  # fmt: skip


def _cold_worker(ops, out_fd):
    res = {}
    for op in ops:
        r = bootstrap.run_in_fork(_cold_one, op, 60)
        res[key(op)] = r
    with os.fdopen(out_fd, "wb") as f:
        f.write(json.dumps(res).encode())


def _cold_one(op):
    ans, ident, exc = eval_op(op, None)
    return {"a": ans, "x": exc}


def cold_table(ops, workers):
    """Evaluate every op alone in a fresh fork of the pristine parent: the empty history."""
    uniq = {}
    for op in ops:
        uniq.setdefault(key(op), op)
    ops = list(uniq.values())
    pipes = {}
    pids = []
    for w in range(workers):
        chunk = ops[w::workers]
        r, wfd = os.pipe()
        pid = os.fork()
        if pid == 0:
            try:
                os.close(r)
                _cold_worker(chunk, wfd)
            finally:
                os._exit(0)
        os.close(wfd)
        pipes[r] = []
        pids.append(pid)
    openfds = set(pipes)
    while openfds:
        ready, _, _ = select.select(list(openfds), [], [], 5.0)
        for fd in ready:
            b = os.read(fd, 1 << 20)
            if b:
                pipes[fd].append(b)
            else:
                openfds.discard(fd)
                os.close(fd)
    for pid in pids:
        os.waitpid(pid, 0)
    table = {}
    for chunks in pipes.values():
        raw = b"".join(chunks)
        if not raw:
            raise bootstrap.HarnessError("cold-oracle worker died")
        for k, v in json.loads(raw).items():
            if "harness" in v:
                raise bootstrap.HarnessError(f"cold evaluation of {k} failed: {v}")
            table[k] = v["a"]
    return table


def _all_zone_ids(_):
    import pyoda_time as P

    return sorted(P.DateTimeZoneProviders.tzdb.ids)


def _zone_transitions(ids):
    import pyoda_time as P

    out = {}
    lo, hi = -5364662400 * 10**9, 4102444800 * 10**9  # 1800 .. 2100
    for zid in ids or TZ_IDS:
        z = P.DateTimeZoneProviders.tzdb[zid]
        inst = _inst(lo)
        ts = []
        for _ in range(2000):
            zi = z.get_zone_interval(inst)
            if not zi.has_end:
                break
            e = _ns(zi.end)
            if e > hi:
                break
            ts.append(e)
            inst = zi.end
        out[zid] = ts
    return out


def _year_starts(cal):
    """Day numbers (since 1970-01-01 ISO) of the first day of years of a calendar, through the public API, in a fork."""
    import pyoda_time as P

    c = P.CalendarSystem.for_id(cal)
    lo, hi = c.min_year, c.max_year
    years = list(range(lo, hi + 1)) if hi - lo <= 1200 else sorted(random.Random(zlib.crc32(cal.encode())).sample(range(lo + 1, hi), 160))
    iso = P.CalendarSystem.iso
    epoch = P.LocalDate(1970, 1, 1)
    out = {}
    for y in years:
        try:
            out[y] = P.Period.days_between(epoch, P.LocalDate(y, 1, 1, c).with_calendar(iso))
        except Exception:  # noqa: BLE001
            pass
    return out


def _all_culture_names(_):
    from pyoda_time._compatibility._culture_info import CultureInfo
    from pyoda_time._compatibility._culture_types import CultureTypes

    return sorted(c.name for c in CultureInfo.get_cultures(CultureTypes.ALL_CULTURES) if c.name)


def prepare(tier, master_seed, workers):
    global _POOL, _TABLE, _ALL_CULTURES, _TRANSITIONS, _SWEEPS
    t0 = time.monotonic()
    r = bootstrap.run_in_fork(_all_culture_names, None, 120)
    _ALL_CULTURES = r if isinstance(r, list) else []
    tr = bootstrap.run_in_fork(_zone_transitions, None, 300)
    _TRANSITIONS = tr if isinstance(tr, dict) and "harness" not in tr else {}
    # data-driven: zones that have a 32-day cache period containing two or more transitions (the node chain of such a
    # period has three links) - found by walking every zone of the database once, in forks
    global _DOUBLE
    _DOUBLE = []
    ids = bootstrap.run_in_fork(_all_zone_ids, None, 120)
    if isinstance(ids, list):
        chunks = [ids[i::workers] for i in range(workers)]
        for part in bootstrap.parallel_map(_zone_transitions, chunks, workers, 600):
            if isinstance(part, dict) and "harness" not in part:
                for zid, ts in part.items():
                    for a, b in zip(ts, ts[1:]):
                        if (a // NS_DAY) >> 5 == (b // NS_DAY) >> 5:
                            _DOUBLE.append((zid, a, b))
    scale = 2.0 if tier == "thorough" else 1.0
    _POOL = build_pool(master_seed, scale)
    # year-boundary histories: for every year of the small calendars and a sample of the others, touch the year, then convert
    # the days around its first day (arguments are raw day numbers, so the cold answer knows nothing of the touch)
    global _HIST_PAIRS
    _HIST_PAIRS = []
    hist_ops = []
    cal_list = list(CAL_RANGE)
    starts = bootstrap.parallel_map(_year_starts, cal_list, workers, 300)
    hrng = random.Random(master_seed ^ 0x4157)
    for cal, tab in zip(cal_list, starts):
        if not isinstance(tab, dict) or "harness" in tab:
            continue
        ys = sorted(int(y) for y in tab)
        if tier != "thorough" and len(ys) > 60:
            keep = set(hrng.sample(ys, 60)) if len(ys) <= 1200 and len(ys) > 400 else set(hrng.sample(ys, 40))
            if len(ys) > 400 and len(ys) <= 1200:
                keep = set(ys[:: max(1, len(ys) // 330)])  # small calendars: every third year in quick, all in thorough
            ys = [y for y in ys if y in keep]
        for y in ys:
            d0 = tab[str(y)] if str(y) in tab else tab[y]
            warm = hrng.choice([["ylen", cal, y], ["date", cal, y, 1, 1], ["mlen", cal, y, 1]])
            q = ["dscan", cal, d0 - 3, 45]
            _HIST_PAIRS.append([warm, q])
            hist_ops += [warm, q]
    n_pairs = {"quick": 100, "thorough": 600}.get(tier, 12)
    pairs = build_sweep_pairs(_POOL, master_seed, n_pairs)
    sweep_ops = [o for pr in pairs for o in pr["warm"] + [pr["a"], pr["b"]] + list(pr.get("obs") or [])]
    sweep_ops += [["ziu", o[1], o[2]] for o in sweep_ops if o[0] == "zi"]
    table = cold_table(list(pool_ops(_POOL)) + sweep_ops + hist_ops, workers)
    # second phase: parse ops built from cold formatting answers
    parse_ops = []
    for cname, ops in _POOL["text"].items():
        extra = []
        for op in ops:
            a = table[key(op)]
            if isinstance(a, str) and len(extra) < 3:
                extra.append(["parse", op[1], op[2], op[3], op[4], a])
        ops.extend(extra)
        parse_ops += extra
    table.update(cold_table(parse_ops, workers))
    _TABLE = table
    global _SWEEP_PAIRS
    _SWEEP_PAIRS, _SWEEPS, sweep_info = build_sweeps(_POOL, master_seed, n_pairs, 180 if tier != "thorough" else 800, 20 if tier != "thorough" else 80, workers)  # fmt: skip
    info = {"sweep": sweep_info, "year_boundary_history_cases": len(_HIST_PAIRS), "pool_ops": len(table), "cold_oracle_s": round(time.monotonic() - t0, 2), "cultures_in_icu": len(_ALL_CULTURES),
            "cold_exceptions": sum(1 for v in table.values() if isinstance(v, list) and v[:1] == ["EXC"])}  # fmt: skip
    return info


# ---------------------------------------------------------------------------------------------------------------------
# run generation


def _strategy(rng, nthreads):
    if nthreads == 1:
        return {"kind": "serial"}
    c = rng.random()
    if c < 0.25:
        return {"kind": "uniform", "p": rng.choice([0.002, 0.01, 0.05, 0.2])}
    if c < 0.6:
        return {"kind": "biased", "p_hot": rng.choice([0.05, 0.2, 0.5]), "p_cold": rng.choice([0.0005, 0.005])}
    if c < 0.9:
        return {"kind": "pct", "d": rng.choice([1, 2, 3]), "horizon": rng.choice([200, 2000, 20000, 100000])}
    return {"kind": "serial", "order": "random"}


_SWEEP_PAIRS = []


def gen_case(master_seed, k):
    """Systematic single-pre-emption cases first, seeded random runs after."""
    if k < len(_SWEEPS):
        pi, i = _SWEEPS[k]
        return _sweep_spec(_SWEEP_PAIRS[pi], i, derive_seed(master_seed, PROP, k))
    k2 = k - len(_SWEEPS)
    if k2 < len(_HIST_PAIRS):
        warm, q = _HIST_PAIRS[k2]
        return {"prop": PROP, "seed": derive_seed(master_seed, PROP, k), "mode": "hist", "families": ["year boundary after touch"],
                "threads": [[warm, q, q]], "strategy": {"kind": "serial"}, "prewarm": ["cal"]}  # fmt: skip
    return gen_run(derive_seed(master_seed, PROP, k))


def gen_run(seed):
    if _POOL is None:
        raise bootstrap.HarnessError("prepare() not run")
    rng = random.Random(seed)
    pool = _POOL
    nthreads = rng.choice([1, 1, 2, 2, 3, 3, 4, 4, 8, 16])
    fams = [f for f in ("cal", "zone", "prov", "calid", "text", "iso", "names") if rng.random() < 0.45]
    if not fams:
        fams = [rng.choice(["cal", "zone", "prov", "calid", "text", "iso", "names"])]
    # material shared by all threads of the run, so that they collide
    material = []
    if "cal" in fams:
        cals = rng.sample(list(pool["cal"]), rng.choice([1, 1, 2]))
        if rng.random() < 0.2:
            cals = ["Hebrew Civil"]
        if "Hebrew Civil" in cals and rng.random() < 0.7:
            cals.append("Hebrew Scriptural")
        for c in cals:
            for g in rng.sample(pool["cal"][c], min(len(pool["cal"][c]), rng.choice([1, 2]))):
                material += g
    if "zone" in fams:
        for z in rng.sample(list(pool["zone"]), rng.choice([1, 1, 2])):
            for g in rng.sample(pool["zone"][z], min(len(pool["zone"][z]), rng.choice([1, 2]))):
                material += g
    if "prov" in fams:
        material += rng.sample(pool["prov"], min(len(pool["prov"]), rng.choice([3, 8, 20])))
    if "calid" in fams:
        material += rng.sample(pool["calid"], min(len(pool["calid"]), rng.choice([3, 8, 20])))
    many_cultures = "text" in fams and rng.random() < 0.15
    if "text" in fams:
        names = list(pool["text"])
        for c in rng.sample(names, min(len(names), 30 if many_cultures else rng.choice([1, 2, 3]))):
            material += rng.sample(pool["text"][c], min(len(pool["text"][c]), 2 if many_cultures else 6))
    if "iso" in fams:
        material += rng.sample(pool["iso"], min(len(pool["iso"]), rng.choice([2, 6, 12])))
    if "names" in fams:
        cn = rng.choice(pool["names"])[1]
        same = [o for o in pool["names"] if o[1] == cn]
        material += same + rng.sample(pool["names"], 3)
    cobj_seq = None
    if "text" in fams and rng.random() < 0.35:
        allc = [o for ops in pool["text"].values() for o in ops if o[0] == "cobj"]
        if allc:
            a = rng.choice(allc)
            same = [o for o in allc if o[1] == a[1] and o[2] == a[2]]
            cobj_seq = [rng.choice(same) for _ in range(rng.choice([2, 3, 5]))]
    nops = rng.choice([2, 4, 6, 10, 16]) if not many_cultures else rng.choice([20, 40])
    progs = []
    for _ in range(nthreads):
        if rng.random() < 0.3 and progs:
            p = list(progs[0])  # same program in several threads: maximal contention on first touches
            if rng.random() < 0.5:
                rng.shuffle(p)
        else:
            p = [rng.choice(material) for _ in range(nops)]
            if rng.random() < 0.2:
                p.sort(key=key)
            if cobj_seq is not None and rng.random() < 0.7:
                at = rng.randrange(len(p) + 1)
                p[at:at] = cobj_seq  # a coherent use / re-customise / use sequence on one caller-owned culture object
        progs.append(p)
    spec = {"prop": PROP, "seed": seed, "mode": "hist" if nthreads == 1 else "conc", "families": fams, "threads": progs,
            "strategy": _strategy(rng, nthreads)}  # fmt: skip
    # knobs
    if ("text" in fams or "names" in fams) and rng.random() < 0.3:
        spec["fmt_cache_size"] = rng.choice([1, 2, 3, 8])
    warm = []
    if rng.random() < 0.5:
        warm = rng.sample(["utc", "cal", "zones", "cultures", "iso"], rng.choice([1, 2, 4]))
    # loading the tz database under the tracer costs ~0.4M steps per thread: keep the cold-provider race to a minority of
    # runs, and to few threads
    uses_tzdb = any(op[0] in ("zi", "zoff", "inzone", "tz", "tznone", "tzids", "prov", "local", "winmap", "zis") for p in progs for op in p)
    if uses_tzdb and (rng.random() < 0.85 or nthreads > 4):
        warm.append("prov")
    spec["prewarm"] = warm
    return spec


# ---------------------------------------------------------------------------------------------------------------------
# execution


class _Env:
    pass


def _prewarm(spec):
    import pyoda_time as P

    w = spec.get("prewarm") or []
    ops = [op for p in spec["threads"] for op in p]
    if "prov" in w:
        P.DateTimeZoneProviders.tzdb  # noqa: B018
    if "utc" in w:
        P.DateTimeZone.utc  # noqa: B018
    if "cal" in w:
        for op in ops:
            if op[0] in ("date", "ylen", "mlen", "fromdays", "dera", "calid", "eras", "erayear", "conv", "plusm", "yscan", "dscan"):
                try:
                    P.CalendarSystem.for_id(op[1])
                except Exception:  # noqa: BLE001
                    pass
    if "zones" in w:
        for op in ops:
            if op[0] in ("zi", "zoff", "inzone", "tz", "local", "zis"):
                try:
                    P.DateTimeZoneProviders.tzdb[op[1]]
                except Exception:  # noqa: BLE001
                    pass
    if "cultures" in w:
        for op in ops:
            if op[0] in ("fmt", "parse") and op[4] in ("cached", "current") or op[0] == "names" and op[2] == "cached":
                try:
                    _culture(op[3] if op[0] != "names" else op[1], "cached")
                except Exception:  # noqa: BLE001
                    pass
    if "iso" in w:
        for op in ops:
            if op[0] == "iso":
                try:
                    getattr(_pattern_cls(op[1]), op[2])
                except Exception:  # noqa: BLE001
                    pass


def _apply_knobs(spec, notes):
    n = spec.get("fmt_cache_size")
    if n:
        try:
            from pyoda_time.globalization._pyoda_format_info import _PyodaFormatInfo
            from pyoda_time.utility._cache import _Cache

            if hasattr(_PyodaFormatInfo, "_PyodaFormatInfo__CACHE"):
                _PyodaFormatInfo._PyodaFormatInfo__CACHE = _Cache(n, lambda culture: _PyodaFormatInfo(culture))
            else:
                notes.append("knob fmt_cache_size skipped: private cache attribute not found")
        except Exception as e:  # noqa: BLE001
            notes.append(f"knob fmt_cache_size skipped: {type(e).__name__}")


def _body(env, ti, prog):
    def body(sched, t):
        for oi, op in enumerate(prog):
            t.op = oi
            t.ev = 0
            t.op_steps = 0
            inv = sched.stamp()
            ans, ident, exc = eval_op(op, env)
            ret = sched.stamp()
            if ident is not None:
                env.idents.append((ident[0], ident[1], ti, oi))
            env.hist.append([ti, oi, inv, ret, op, ans, exc])
            env.op_events[(ti, oi)] = t.ev

    return body


def _expected(op):
    k = key(op)
    if _TABLE is not None and k in _TABLE:
        return _TABLE[k]
    return None


def execute(spec):
    notes = []
    env = _Env()
    env.hist = []
    env.idents = []
    env.op_events = {}
    env.cobj = {}
    env.cprov = None
    if any(op[0] == "cprov" for p in spec["threads"] for op in p):
        try:
            env.cprov = _custom_provider()
        except Exception as e:  # noqa: BLE001
            notes.append(f"custom provider unavailable: {type(e).__name__}")
    _apply_knobs(spec, notes)
    _prewarm(spec)
    rng = random.Random(spec["seed"] ^ 0x5EED)
    strat = simsched.make_strategy(spec["strategy"], rng)
    sched = simsched.Scheduler(strat, max_steps=MAX_STEPS, hot_files=HOT_FILES, record_trace=bool(spec.get("record_trace")),
                               coarse_files=COARSE_FILES)  # fmt: skip
    for ti, prog in enumerate(spec["threads"]):
        sched.add_thread(_body(env, ti, prog))
    sched.run()
    out = {"prop": PROP, "mode": spec["mode"], "sched": sched.summary(), "switches": sched.switches, "notes": notes}
    if sched.trace is not None:
        out["trace"] = sched.trace
    probes = {"ops": len(env.hist), "blocked_on_lock": sched.blocked_events, "switch_holding_lock": sched.switch_holding_lock,
              "same_function_overlap": sched.same_function_overlap}  # fmt: skip
    probes.update(_static_probes(spec))
    out["probes"] = probes
    if spec.get("want_op_events"):
        out["op_events"] = [[ti, oi, ev] for (ti, oi), ev in sorted(env.op_events.items())]
    if spec["mode"] == "sweep":
        probes["sweep_case"] = 1
        probes["sweep_preemption_taken"] = int(any(sw[0] == 0 and sw[3] == 1 and sw[1] >= 0 for sw in sched.switches[1:]))
    if sched.aborted:
        info = sched.abort_info
        out["abort"] = info
        if info["reason"] == "deadlock":
            blocked = [t for t in info["threads"] if t["state"] == 2]
            sites = sorted({(t["stack"][0].rsplit(":", 1)[0] if t["stack"] else "?") for t in blocked})
            out["verdict"] = "violation"
            out["signature"] = "deadlock at " + ",".join(sites)
            out["detail"] = "no runnable thread: " + "; ".join(f"thread {t['idx']} waits for {t.get('blocked_on')} held by {t.get('owner')}" for t in blocked[:4])  # fmt: skip
            return out
        out["verdict"] = "inconclusive"
        out["signature"] = info["reason"]
        return out
    # answers against the empty-history table
    n_checked = 0
    for ti, oi, inv, ret, op, ans, exc in env.hist:
        exp = _expected(op)
        if exp is None and not (_TABLE is not None and key(op) in _TABLE):
            notes.append("op without cold answer")
            continue
        n_checked += 1
        if ans != exp:
            out["verdict"] = "violation"
            if isinstance(ans, list) and ans[:1] == ["EXC"]:
                out["signature"] = f"exception {op[0]} {ans[1]} at {exc[0] if exc else '?'}"
                out["detail"] = f"thread {ti} op {oi} {op}: raised {ans[1]} ({exc[1] if exc else ''}); alone in a fresh process the answer is {exp}"  # fmt: skip
            else:
                out["signature"] = f"answer differs {op[0]}" + (f" {op[1]}" if op[0] in ("fmt", "parse", "iso", "fmtw", "winmap") else "")
                out["detail"] = f"thread {ti} op {oi} {op}: answered {ans}; alone in a fresh process the answer is {exp}"
            return out
        if op[0] == "zi":
            u = _TABLE.get(key(["ziu", op[1], op[2]])) if _TABLE else None
            if u is not None and u != "no-underlying" and ans != u:
                out["verdict"] = "violation"
                out["signature"] = "caching zone differs from underlying zone"
                out["detail"] = f"thread {ti} op {oi} {op}: caching zone answered {ans}, underlying zone answers {u}"
                return out
    probes["answers_checked"] = n_checked
    # stated identities
    groups = {}
    for ik, obj, ti, oi in env.idents:
        groups.setdefault(ik, []).append((obj, ti, oi))
    for ik, lst in groups.items():
        first = lst[0][0]
        if ik[0] == "fixed-eq":
            for obj, ti, oi in lst[1:]:
                if not (obj == first):
                    out["verdict"] = "violation"
                    out["signature"] = "fixed zones for one offset not equal"
                    out["detail"] = f"DateTimeZone.for_offset({ik[1]}s) returned unequal zones"
                    return out
            continue
        for obj, ti, oi in lst[1:]:
            if obj is not first:
                if ik[0] in ("tz", "cprov") and getattr(first, "id", "").startswith("UTC") and obj == first and type(obj).__name__ == "_FixedDateTimeZone":
                    # fixed-offset ids are served by DateTimeZone.for_offset, which documents "equal, not necessarily the same"
                    probes["fixed_equal_not_same"] = probes.get("fixed_equal_not_same", 0) + 1
                    continue
                out["verdict"] = "violation"
                out["signature"] = f"identity {ik[0]}"
                what = {"cprov": "lookups of one id through a provider over a custom source returned distinct zone objects", "tz": "DateTimeZoneProviders.tzdb lookups of one id returned distinct zone objects", "cal": "calendar system obtained twice for one id is not a singleton", "utc": "DateTimeZone.utc returned distinct objects", "prov": "DateTimeZoneProviders.tzdb returned distinct providers"}[ik[0]]  # fmt: skip
                out["detail"] = f"{what}: key {list(ik)}, threads {lst[0][1]} and {ti}"
                return out
    probes["identity_groups"] = len(groups)
    out["verdict"] = "ok"
    return out


def _static_probes(spec):
    """Reach probes computable from the programme: aliasing keys in the year-start and zone-interval caches."""
    years = {}
    periods = {}
    cultures = set()
    for p in spec["threads"]:
        for op in p:
            if op[0] in ("date", "ylen", "mlen", "dera", "conv"):
                years.setdefault((op[1] if not op[1].startswith("Hebrew") else "Hebrew", op[2] & 1023), set()).add(op[2])
            elif op[0] in ("zi", "zoff", "inzone"):
                per = (op[2] // NS_DAY) >> 5
                periods.setdefault((op[1], per & 511), set()).add(per)
            elif op[0] in ("fmt", "parse") and op[4] in ("cached", "current"):
                cultures.add(op[3])
    return {
        "year_slots_with_aliasing_years": sum(1 for v in years.values() if len(v) > 1),
        "zone_slots_with_aliasing_periods": sum(1 for v in periods.values() if len(v) > 1),
        "format_cache_eviction_possible": int(bool(spec.get("fmt_cache_size")) and len(cultures) > spec.get("fmt_cache_size", 0)),
        "distinct_cached_cultures": len(cultures),
    }  # fmt: skip


# ---------------------------------------------------------------------------------------------------------------------


def nontrivial_key(spec, res):
    """Distinct + non-trivial: history runs by program content (>= 2 ops); concurrent runs by trace digest with >= 1
    voluntary context switch inside an inventory file."""
    sc = res.get("sched") or {}
    if spec["mode"] == "sweep":
        return "w" + sc.get("digest", "") if (res.get("probes") or {}).get("sweep_preemption_taken") else None
    if spec["mode"] == "hist":
        if len(spec["threads"][0]) < 2:
            return None
        return "h%08x" % zlib.crc32(repr(spec["threads"]).encode())
    if sc.get("hot_switches", 0) < 1:
        return None
    return "c" + sc.get("digest", "")


def shrink_candidates(spec):
    th = spec["threads"]
    for ti in range(len(th) - 1, -1, -1):
        if len(th) > 1:
            yield ("drop_thread", ti)
    for ti in range(len(th)):
        for oi in range(len(th[ti]) - 1, -1, -1):
            yield ("drop_op", ti, oi)
    if spec.get("prewarm"):
        yield ("no_prewarm",)
    if spec.get("fmt_cache_size"):
        yield ("no_knob",)


def apply_shrink(spec, cand):
    import copy

    s = copy.deepcopy(spec)
    if cand[0] == "drop_thread":
        del s["threads"][cand[1]]
    elif cand[0] == "drop_op":
        del s["threads"][cand[1]][cand[2]]
        if not any(s["threads"]):
            return None
    elif cand[0] == "no_prewarm":
        s["prewarm"] = []
    elif cand[0] == "no_knob":
        s.pop("fmt_cache_size", None)
    return s


def ensure_table_for(spec, workers=8):
    """Replay / single-run entry: make sure cold answers exist for every op of the spec."""
    global _TABLE
    ops = [op for p in spec["threads"] for op in p]
    ops += [["ziu", op[1], op[2]] for op in ops if op[0] == "zi"]
    missing = [op for op in ops if _TABLE is None or key(op) not in _TABLE]
    if missing:
        t = cold_table(missing, workers)
        _TABLE = dict(_TABLE or {})
        _TABLE.update(t)


RULE = (
    "one case = one simulated execution: 1-16 threads each running a seeded program of public-API queries (calendar computations "
    "with years aliasing in the 1024-slot year caches, zone-interval lookups with 32-day periods aliasing in the 512-slot cache, "
    "provider / calendar / era lookups, pattern creation+format+parse over ICU cultures, ISO pattern singletons, format-info name "
    "tables) against shared process-wide state, under a seeded schedule; every answer is compared with the answer the same query "
    "gives alone in a fresh process, and stated identities are checked across the run. Distinct = different program content "
    "(single-thread history runs) or different trace digest over (thread, function, line) of every scheduling step (concurrent); "
    "non-trivial = history with >= 2 queries, or concurrent run with >= 1 voluntary context switch taken inside a cache / "
    "lazy-singleton source file or at a lock operation."
)
ASSUMPTIONS = [
    "pre-emption happens at statement granularity (sys.settrace line/call events in pyoda_time frames) and at every lock acquire/release; races inside one statement, inside C code (dict, functools.cache internals) or inside ICU are not explored",
    "the reference answer is the query evaluated alone in a fresh fork of a process that has only imported pyoda_time; determinism of that cold evaluation is part of the determinism self-test",
    "identity is required only where the statement or the API documentation promises it (provider lookups per id, CalendarSystem per id, the tzdb provider, DateTimeZone.utc); elsewhere only answers are compared",
    "the private attribute _time_zone of the caching zone and the private format-info cache are read/replaced only to build the oracle table and to shrink the cache (knob); if they disappear those parts are skipped",
]
TIERS = {"quick": {"runs": 2400, "budget": 420.0}, "thorough": {"runs": 400_000, "budget": 3600.0}}


def main(a, boot_info):
    from sim import runner

    t = TIERS[a.tier]
    info = prepare(a.tier, a.seed, a.workers)
    nruns = (a.runs or t["runs"]) + len(_SWEEPS) + len(_HIST_PAIRS)
    budget = a.budget or t["budget"]
    code, agg = runner.check_property(sys.modules[__name__], a.tier, a.seed, nruns, a.workers, budget, "exploration", RULE, ASSUMPTIONS,
                                      extra_cov={"bootstrap": boot_info, "oracle_pool": info}, wall_timeout=120.0)  # fmt: skip
    return code
