"""C19 - clocks follow their simple model under any sequence of operations (DESIGN.md section 4, C19).

Workloads: sequential histories (exact step-by-step comparison with the model, including edge-of-range runs),
concurrent histories on one shared FakeClock (linearizability against the model, exact deadlock detection, per-op step
bound), read-only concurrent workloads (no duplicate instants under non-zero auto-advance), and SystemClock under the
virtual OS clock.
"""

from __future__ import annotations

import random
import sys

from sim import linearize, simclock, simsched

PROP = "C19"
HOT_FILES = ("testing/_fake_clock.py", "_system_clock.py", "_zoned_clock.py")
MAX_OP_STEPS = 20_000
MAX_STEPS = 1_000_000

UNITS = {
    "nanoseconds": 1,
    "ticks": 100,
    "milliseconds": 10**6,
    "seconds": 10**9,
    "minutes": 60 * 10**9,
    "hours": 3600 * 10**9,
    "days": 86400 * 10**9,
}
NS_DAY = 86400 * 10**9
# Documented ranges (Instant: -9998-01-01 .. 9999-12-31T23:59:59.999999999; Duration: +-2^30 days), checked against the
# library at start-up in `consts()`; a tree that moves them is reported as a harness note, not as a violation.
INST_MIN = -4371222 * NS_DAY
INST_MAX = (2932896 + 1) * NS_DAY - 1
DUR_MIN = -(1 << 30) * NS_DAY
DUR_MAX = (1 << 30) * NS_DAY - 1

CALENDARS = [
    "ISO", "Gregorian", "Julian", "Coptic", "Badi", "Hebrew Civil", "Hebrew Scriptural", "Persian Simple",
    "Persian Arithmetic", "Persian Algorithmic", "Um Al Qura", "Hijri Civil-Base15", "Hijri Astronomical-Base15",
    "Hijri Civil-Base16", "Hijri Astronomical-Base16", "Hijri Civil-Indian", "Hijri Astronomical-Indian",
    "Hijri Civil-HabashAlHasib", "Hijri Astronomical-HabashAlHasib",
]  # fmt: skip
TZ_IDS = [
    "Europe/London", "America/New_York", "Australia/Lord_Howe", "Asia/Kathmandu", "Pacific/Apia", "America/Sao_Paulo",
    "Africa/Casablanca", "Europe/Dublin", "Asia/Tehran", "Pacific/Kiritimati", "America/St_Johns", "Antarctica/Troll",
]  # fmt: skip
GETTERS = ["instant", "zoned", "local", "offset", "date", "time"]
INVERTIBLE_GETTERS = ["instant", "zoned", "offset"]


# ---------------------------------------------------------------------------------------------------------------------
# own calendar arithmetic (independent of the library): proleptic Gregorian


def days_from_civil(y, m, d):
    y -= m <= 2
    era = y // 400
    yoe = y - era * 400
    doy = (153 * (m + (-3 if m > 2 else 9)) + 2) // 5 + d - 1
    doe = yoe * 365 + yoe // 4 - yoe // 100 + doy
    return era * 146097 + doe - 719468


def civil_from_days(z):
    z += 719468
    era = z // 146097
    doe = z - era * 146097
    yoe = (doe - doe // 1460 + doe // 36524 - doe // 146096) // 365
    y = yoe + era * 400
    doy = doe - (365 * yoe + yoe // 4 - yoe // 100)
    mp = (5 * doy + 2) // 153
    d = doy - (153 * mp + 2) // 5 + 1
    m = mp + (3 if mp < 10 else -9)
    return (y + (m <= 2), m, d)


# ---------------------------------------------------------------------------------------------------------------------
# generation (pure function of the seed; never touches the library)


def _rand_amount(rng, big=False):
    c = rng.random()
    if c < 0.12:
        return rng.choice([0, 1, -1, 99, 100, -100, 10**9, -(10**9)])
    if c < 0.24:
        # round amounts: whole multiples of a unit (exactly one day, minus one day, 48 hours, ...)
        return rng.choice(list(UNITS.values())) * rng.choice([1, -1, 1, -1, 2, -2, 24, -24, 60, -60, 7, 1000, -1000])
    if c < 0.55:
        return rng.randrange(-(10**6), 10**6)
    if c < 0.85:
        return rng.randrange(-(10**15), 10**15)
    if big:
        return rng.choice([-1, 1]) * rng.randrange(2**63, 2**66)
    return rng.randrange(-(2**62), 2**62)


def _rand_instant(rng, edge=False):
    if edge:
        c = rng.random()
        if c < 0.4:
            return INST_MAX - rng.randrange(0, 5 * NS_DAY)
        if c < 0.8:
            return INST_MIN + rng.randrange(0, 5 * NS_DAY)
        return rng.choice([INST_MIN, INST_MAX, INST_MIN + 1, INST_MAX - 1])
    c = rng.random()
    if c < 0.2:
        return rng.choice([0, -1, 1, 946684800 * 10**9, -(10**9) * 86400 * 365 * 100])
    if c < 0.7:
        return rng.randrange(-(2**62), 2**62)
    return rng.randrange(INST_MIN // 2, INST_MAX // 2)


def _rand_zoned(rng, n):
    out = []
    for _ in range(n):
        c = rng.random()
        if c < 0.2:
            zone = "UTC"
        elif c < 0.55:
            zone = rng.choice([0, 3600, -3600, 19800, 45900, -34200, 64800, -64800, 1, -1, 37, 12 * 3600 + 45 * 60])
        else:
            zone = rng.choice(TZ_IDS)
        cal = "ISO" if rng.random() < 0.4 else rng.choice(CALENDARS)
        out.append({"zone": zone, "cal": cal})
    return out


class Model:
    """The trivial model of the property: current value plus auto-advance applied after each read. Integers of ns."""

    def __init__(self, now, auto):
        self.now = now
        self.auto = auto

    @staticmethod
    def amount(op):
        return op[2] if op[1] == "duration" else op[2] * UNITS[op[1]]

    def predict(self, op):
        """-> ('val', expected) | ('none',) | ('range',)  and updates state when in range."""
        k = op[0]
        if k in ("read", "z"):
            nxt = self.now + self.auto
            if not INST_MIN <= nxt <= INST_MAX:
                return ("range",)
            r = ("val", self.now) if k == "read" else ("zval", self.now)
            self.now = nxt
            return r
        if k == "adv":
            a = self.amount(op)
            nxt = self.now + a
            if not DUR_MIN <= a <= DUR_MAX or not INST_MIN <= nxt <= INST_MAX:
                return ("range",)
            self.now = nxt
            return ("none",)
        if k == "reset":
            self.now = op[1]
            return ("none",)
        if k == "gauto":
            return ("val", self.auto)
        if k == "sauto":
            self.auto = op[1]
            return ("none",)
        raise ValueError(op)


def _rand_op(rng, weights, nz, edge, getters):
    k = rng.choices(["read", "adv", "reset", "gauto", "sauto", "z"], weights)[0]
    if k == "adv":
        u = rng.choice(["duration"] + list(UNITS))
        if u == "duration":
            return ["adv", u, _rand_amount(rng, big=edge)]
        a = _rand_amount(rng, big=edge)
        n = a // UNITS[u] if rng.random() < 0.7 else a % 1000 - 500
        return ["adv", u, n]
    if k == "reset":
        return ["reset", _rand_instant(rng, edge)]
    if k == "sauto":
        return ["sauto", _rand_amount(rng, big=edge and rng.random() < 0.3)]
    if k == "z":
        if nz == 0:
            return ["read"]
        return ["z", rng.randrange(nz), rng.choice(getters)]
    return [k]


def _strategy(rng, nthreads):
    if nthreads == 1:
        return {"kind": "serial"}
    c = rng.random()
    if c < 0.35:
        return {"kind": "uniform", "p": rng.choice([0.002, 0.01, 0.05, 0.2, 0.5])}
    if c < 0.65:
        return {"kind": "biased", "p_hot": rng.choice([0.3, 0.6]), "p_cold": rng.choice([0.001, 0.02])}
    if c < 0.9:
        return {"kind": "pct", "d": rng.choice([1, 2, 3]), "horizon": rng.choice([50, 200, 1000, 5000])}
    return {"kind": "serial", "order": "random"}


def gen_run(seed: int):
    rng = random.Random(seed)
    c = rng.random()
    mode = "seq" if c < 0.33 else "conc" if c < 0.68 else "readers" if c < 0.79 else "zrace" if c < 0.89 else "sys"
    spec = {"prop": PROP, "seed": seed, "mode": mode}
    if mode == "zrace":
        return _gen_zrace(rng, spec)
    if mode == "sys":
        return _gen_sys(rng, spec)
    edge = mode == "seq" and rng.random() < 0.3
    spec["edge"] = edge
    if rng.random() < 0.15 and not edge:
        y = rng.randrange(-9997, 9999) if mode == "seq" else rng.randrange(-5000, 5000)
        m = rng.randrange(1, 13)
        d = rng.randrange(1, 29)
        args = [y, m, d] + [[], [rng.randrange(24)], [rng.randrange(24), rng.randrange(60)], [rng.randrange(24), rng.randrange(60), rng.randrange(60)]][rng.randrange(4)]  # fmt: skip
        h, mi, s = (args[3:] + [0, 0, 0])[:3]
        now = days_from_civil(y, m, d) * NS_DAY + (h * 3600 + mi * 60 + s) * 10**9
        spec["init"] = {"ctor": "from_utc", "args": args, "now": now, "auto": 0}
    else:
        auto = 0 if rng.random() < 0.3 else _rand_amount(rng)
        spec["init"] = {"ctor": "plain" if auto or rng.random() < 0.5 else "default_auto", "now": _rand_instant(rng, edge), "auto": auto}  # fmt: skip
    nz = rng.choice([0, 1, 2, 4])
    spec["zoned"] = _rand_zoned(rng, nz)
    if mode == "seq":
        w = [rng.choice([1, 3, 6]), rng.choice([1, 4, 8]), rng.choice([0, 1, 2]), rng.choice([0, 1]), rng.choice([0, 1, 2]), rng.choice([0, 2, 5])]  # fmt: skip
        if sum(w) == 0:
            w[0] = 1
        n = rng.randrange(1, 61)
        prog = []
        model = Model(spec["init"]["now"], spec["init"]["auto"])
        while len(prog) < n:
            op = _rand_op(rng, w, nz, edge, GETTERS)
            prog.append(op)
            if model.predict(op)[0] == "range":
                # narrow relaxation: the clock's state is not assumed after an out-of-range op; re-synchronise
                r = ["reset", _rand_instant(rng, edge)]
                prog.append(r)
                model.predict(r)
                if abs(model.auto) > 2**62:
                    a = ["sauto", _rand_amount(rng)]
                    prog.append(a)
                    model.predict(a)
        spec["threads"] = [prog]
        spec["strategy"] = {"kind": "serial"}
        return spec
    nthreads = rng.choice([2, 2, 3, 3, 4, 4, 8, 16])
    total = rng.randrange(nthreads, 49)
    if mode == "readers":
        if spec["init"]["auto"] == 0:
            spec["init"]["auto"] = rng.choice([1, -1, 100, 10**9, -7])
            if spec["init"]["ctor"] == "from_utc":
                spec["init"]["now"] = rng.randrange(-(2**60), 2**60)
            spec["init"]["ctor"] = "plain"
        if spec["init"]["ctor"] != "from_utc":
            spec["init"]["now"] = rng.randrange(-(2**60), 2**60)
        w = [5, 0, 0, 0, 0, 3 if nz else 0]
    else:
        if spec["init"]["ctor"] != "from_utc":
            spec["init"]["now"] = rng.randrange(-(2**60), 2**60)
        w = [rng.choice([2, 5]), rng.choice([1, 4, 8]), rng.choice([0, 1]), rng.choice([0, 1]), rng.choice([0, 1, 2]), rng.choice([0, 2])]  # fmt: skip
    progs = [[] for _ in range(nthreads)]
    used = set()
    for i in range(total):
        t = i if i < nthreads else rng.randrange(nthreads)
        op = _rand_op(rng, w, nz, False, INVERTIBLE_GETTERS)
        # make every amount unique and moderate so each observed instant is attributable and nothing overflows
        if op[0] == "adv":
            while True:
                a = rng.choice([-1, 1]) * rng.randrange(2**40, 2**58)
                n = a if op[1] == "duration" else a // UNITS[op[1]]
                if n and n not in used:
                    used.add(n)
                    break
            op[2] = n
        elif op[0] == "reset":
            op[1] = rng.randrange(-(2**60), 2**60)
        elif op[0] == "sauto":
            op[1] = rng.choice([-1, 1]) * rng.randrange(1, 2**50)
        progs[t].append(op)
    if rng.random() < 0.3:
        for t in range(nthreads):
            for _ in range(rng.randrange(1, 4)):
                progs[t].insert(rng.randrange(len(progs[t]) + 1), ["mkz", (t + rng.randrange(2)) % 2, rng.choice(["utc", "utc", "zone", "cal"])])
    spec["threads"] = progs
    spec["strategy"] = _strategy(rng, nthreads)
    return spec


def _gen_zrace(rng, spec):
    """Several threads share one or two ZonedClocks over real tzdb zones while the wrapped clock jumps by days to months per
    read, so that consecutive readings lie in different zone intervals: whatever a ZonedClock might remember between calls
    is stale for the next caller. Judged like any concurrent history (linearizability + rendering)."""
    spec["mode"] = "conc"
    spec["edge"] = False
    spec["zrace"] = True
    step = rng.choice([-1, 1]) * rng.randrange(1, 200) * NS_DAY + rng.randrange(NS_DAY)
    spec["init"] = {"ctor": "plain", "now": rng.randrange(-(2**59), 2**60), "auto": step}
    nz = rng.choice([1, 1, 2])
    spec["zoned"] = [{"zone": rng.choice(TZ_IDS), "cal": "ISO" if rng.random() < 0.7 else rng.choice(CALENDARS)} for _ in range(nz)]
    nthreads = rng.choice([2, 2, 3, 4])
    total = rng.randrange(nthreads * 2, 25)
    progs = [[] for _ in range(nthreads)]
    for i in range(total):
        t = i if i < nthreads else rng.randrange(nthreads)
        progs[t].append(["z", rng.randrange(nz), rng.choice(["zoned", "offset", "zoned", "instant"])] if rng.random() < 0.9 else ["read"])
    spec["threads"] = progs
    spec["strategy"] = _strategy(rng, nthreads)
    return spec


def _gen_sys(rng, spec):
    nreaders = rng.choice([1, 1, 2, 3, 4, 8, 15])
    edge = rng.random() < 0.25
    spec["edge"] = edge

    def os_time():
        if edge:
            c = rng.random()
            if c < 0.3:
                return INST_MAX + rng.randrange(-3, 4)
            if c < 0.6:
                return INST_MIN + rng.randrange(-3, 4)
            if c < 0.8:
                return rng.choice([INST_MAX + 10**18, INST_MIN - 10**18, 2**63 - 1, -(2**63)])
        c = rng.random()
        if c < 0.5:
            return 1_700_000_000 * 10**9 + rng.randrange(0, 10**18)
        if c < 0.7:
            return -rng.randrange(0, 10**19)  # before 1970
        if c < 0.85:
            return rng.randrange(0, 10**6)
        return rng.randrange(INST_MIN // 2, INST_MAX // 2)

    spec["os0"] = os_time()
    if rng.random() < 0.3:
        # start inside a UTC day; the driver will later put the OS clock exactly on day boundaries
        spec["os0"] = (spec["os0"] // NS_DAY) * NS_DAY + rng.randrange(1, NS_DAY) if INST_MIN < spec["os0"] < INST_MAX - NS_DAY else spec["os0"]
    driver = []
    for _ in range(rng.randrange(0, 12)):
        c = rng.random()
        if c < 0.15:
            driver.append(["sysmidnight", rng.choice([1, 1, 1, 0, 2]), rng.choice([0, 0, 0, 1, -1])])
        elif c < 0.4:
            driver.append(["systick", rng.randrange(1, 10**9)])
        elif c < 0.6:
            driver.append(["systick", -rng.randrange(1, 10**12)])  # backward jump
        elif c < 0.8:
            driver.append(["sysset", os_time()])
        else:
            driver.append(["sysyield"])
    progs = [driver]
    for _ in range(nreaders):
        p = []
        for _ in range(rng.randrange(1, 9)):
            p.append(["sysinst"] if rng.random() < 0.2 else ["sysread"])
        progs.append(p)
    spec["threads"] = progs
    spec["prewarm_instance"] = rng.random() < 0.4
    spec["strategy"] = _strategy(rng, len(progs))
    return spec


# ---------------------------------------------------------------------------------------------------------------------
# execution (inside a forked child of the pristine parent)


class _Env:
    pass


def _consts():
    from pyoda_time import Duration, Instant, PyodaConstants

    e = PyodaConstants.UNIX_EPOCH
    notes = []
    lo = (Instant.min_value - e).to_nanoseconds()
    hi = (Instant.max_value - e).to_nanoseconds()
    if (lo, hi) != (INST_MIN, INST_MAX):
        notes.append(f"Instant range of this tree {lo}..{hi} differs from the documented one")
    dlo, dhi = Duration.min_value.to_nanoseconds(), Duration.max_value.to_nanoseconds()
    if (dlo, dhi) != (DUR_MIN, DUR_MAX):
        notes.append(f"Duration range of this tree {dlo}..{dhi} differs from the harness constants")
    return e, notes


def _inst(env, ns):
    """Instant for ns since the Unix epoch, built from exact integer parts (days, nanosecond of day)."""
    from pyoda_time import Duration

    days, nod = divmod(ns, NS_DAY)
    return env.epoch + Duration.from_days(days) + Duration.from_nanoseconds(nod)


def _dur(ns):
    from pyoda_time import Duration

    days, nod = divmod(ns, NS_DAY)
    return Duration.from_days(days) + Duration.from_nanoseconds(nod)


def _ns_of_instant(env, i):
    ns = (i - env.epoch).to_nanoseconds()
    # the value must also *be* that instant: equal to, and hashing like, the Instant built from the same nanoseconds
    if INST_MIN <= ns <= INST_MAX:
        ref = _inst(env, ns)
        if not (i == ref) or hash(i) != hash(ref):
            env.denormalised.append(ns)
    return ns


def _canon_date(d):
    return [d.calendar.id, d.year, d.month, d.day]


def _canon(env, getter, v):
    if getter == "instant":
        return _ns_of_instant(env, v)
    if getter == "zoned":
        return ["Z", _ns_of_instant(env, v.to_instant()), v.zone.id, _canon_date(v.date), v.time_of_day.nanosecond_of_day, v.offset.nanoseconds]  # fmt: skip
    if getter == "local":
        return ["L", _canon_date(v.date), v.time_of_day.nanosecond_of_day]
    if getter == "offset":
        return ["O", _ns_of_instant(env, v.to_instant()), _canon_date(v.date), v.time_of_day.nanosecond_of_day, v.offset.nanoseconds]  # fmt: skip
    if getter == "date":
        return ["D"] + _canon_date(v)
    if getter == "time":
        return ["T", v.nanosecond_of_day]
    raise ValueError(getter)


_GETTER_METHOD = {
    "instant": "get_current_instant",
    "zoned": "get_current_zoned_date_time",
    "local": "get_current_local_date_time",
    "offset": "get_current_offset_date_time",
    "date": "get_current_date",
    "time": ("get_curent_time_of_day", "get_current_time_of_day"),  # the published name has a typo; accept its correction too
}


def _getter(zc, g):
    names = _GETTER_METHOD[g]
    for n in (names,) if isinstance(names, str) else names:
        m = getattr(zc, n, None)
        if m is not None:
            return m
    raise AttributeError(names)


def _render(env, now, zi, getter):
    """Expected value of a ZonedClock getter when the wrapped clock reads `now` - computed outside the simulation.

    Uses the library's own Instant.in_zone for the rendering (its correctness is C05/C11), and for fixed-offset zones
    in the ISO/Gregorian calendar additionally the harness's own civil-date arithmetic.
    """
    key = (now, zi, getter)
    r = env.render_cache.get(key)
    if r is not None:
        return r
    try:
        inst = _inst(env, now)
        if getter == "instant":
            r = ["ok", now]
        else:
            z = env.zones[zi]
            zdt = inst.in_zone(z[0], z[1])
            v = {"zoned": lambda: zdt, "local": lambda: zdt.local_date_time, "offset": lambda: zdt.to_offset_date_time(), "date": lambda: zdt.date, "time": lambda: zdt.time_of_day}[getter]()  # fmt: skip
            r = ["ok", _canon(env, getter, v)]
            zs = env.spec["zoned"][zi]
            if zs["cal"] in ("ISO", "Gregorian") and not isinstance(zs["zone"], str) or zs["zone"] == "UTC" and zs["cal"] in ("ISO", "Gregorian"):  # fmt: skip
                off = 0 if zs["zone"] == "UTC" else zs["zone"]
                loc = now + off * 10**9
                dd, nod = divmod(loc, NS_DAY)
                y, m, d = civil_from_days(dd)
                own_date = [zs["cal"], y, m, d]
                got = r[1]
                lib_date = {"zoned": lambda: got[3], "local": lambda: got[1], "offset": lambda: got[2], "date": lambda: got[1:], "time": lambda: None}[getter]()  # fmt: skip
                lib_nod = {"zoned": lambda: got[4], "local": lambda: got[2], "offset": lambda: got[3], "date": lambda: None, "time": lambda: got[1]}[getter]()  # fmt: skip
                if (lib_date is not None and lib_date != own_date) or (lib_nod is not None and lib_nod != nod):
                    env.notes.append(f"rendering-disagreement now={now} zone={zs} getter={getter} lib={got} own={own_date},{nod}")  # fmt: skip
    except Exception as e:  # noqa: BLE001
        r = ["exc", type(e).__name__]
    env.render_cache[key] = r
    return r


def _setup(spec):
    from pyoda_time import CalendarSystem, DateTimeZone, DateTimeZoneProviders, Duration, Offset, SystemClock
    from pyoda_time.testing import FakeClock

    env = _Env()
    env.spec = spec
    env.epoch, env.notes = _consts()
    env.render_cache = {}
    env.denormalised = []
    env.hist = []
    if spec["mode"] == "sys":
        env.simtime = simclock.SimTime(spec["os0"])
        env.SystemClock = SystemClock
        if spec.get("prewarm_instance"):
            SystemClock.instance  # noqa: B018
        return env
    init = spec["init"]
    if init["ctor"] == "from_utc":
        env.clock = FakeClock.from_utc(*init["args"])
    elif init["ctor"] == "default_auto":
        env.clock = FakeClock(_inst(env, init["now"]))
    else:
        env.clock = FakeClock(_inst(env, init["now"]), _dur(init["auto"]))
    env.clock2 = FakeClock(_inst(env, 946684800 * 10**9))
    env.mkz_zone = DateTimeZoneProviders.tzdb["Europe/London"]
    env.mkz_cal = CalendarSystem.for_id("Julian")
    env.zones = []
    env.zclocks = []
    for i, z in enumerate(spec["zoned"]):
        if z["zone"] == "UTC":
            zone = DateTimeZone.utc
        elif isinstance(z["zone"], int):
            zone = DateTimeZone.for_offset(Offset.from_seconds(z["zone"]))
        else:
            zone = DateTimeZoneProviders.tzdb[z["zone"]]
        cal = CalendarSystem.for_id(z["cal"])
        env.zones.append((zone, cal))
        # the three documented ways of making a ZonedClock
        if z["zone"] == "UTC" and z["cal"] == "ISO" and i % 2 == 0:
            zc = env.clock.in_utc()
        elif z["cal"] == "ISO" and i % 2 == 1:
            zc = env.clock.in_zone(zone)
        else:
            zc = env.clock.in_zone(zone, cal)
        env.zclocks.append(zc)
    # prepared arguments (pure constructions happen outside the simulation)
    env.args = {}
    for ti, prog in enumerate(spec["threads"]):
        for oi, op in enumerate(prog):
            if op[0] == "adv" and op[1] == "duration":
                env.args[(ti, oi)] = _dur(op[2])
            elif op[0] == "reset":
                env.args[(ti, oi)] = _inst(env, op[1])
            elif op[0] == "sauto":
                env.args[(ti, oi)] = _dur(op[1])
    env.Duration = Duration
    return env


def _do_op(env, sched, ti, oi, op):
    k = op[0]
    if k == "read":
        return env.clock.get_current_instant()
    if k == "adv":
        if op[1] == "duration":
            return env.clock.advance(env.args[(ti, oi)])
        return getattr(env.clock, "advance_" + op[1])(op[2])
    if k == "reset":
        return env.clock.reset(env.args[(ti, oi)])
    if k == "gauto":
        return env.clock.auto_advance
    if k == "sauto":
        env.clock.auto_advance = env.args[(ti, oi)]
        return None
    if k == "z":
        return _getter(env.zclocks[op[1]], op[2])()
    if k == "mkz":
        # build a ZonedClock from one of two clocks inside the simulation; report what it wraps (no read happens)
        clk = env.clock if op[1] == 0 else env.clock2
        if op[2] == "utc":
            zc = clk.in_utc()
        elif op[2] == "zone":
            zc = clk.in_zone(env.mkz_zone)
        else:
            zc = clk.in_zone(env.mkz_zone, env.mkz_cal)
        return [zc.clock is clk, zc.zone.id, zc.calendar.id]
    if k == "sysread":
        return env.SystemClock.instance.get_current_instant()
    if k == "sysinst":
        return env.SystemClock.instance
    if k == "systick":
        env.simtime.set(env.simtime.now_ns + op[1])
        sched.yield_point()
        return None
    if k == "sysset":
        env.simtime.set(op[1])
        sched.yield_point()
        return None
    if k == "sysmidnight":
        # the OS clock jumps to a UTC day boundary relative to the day it is in now (next midnight, this one, the one after), +-1 ns
        env.simtime.set((env.simtime.now_ns // NS_DAY + op[1]) * NS_DAY + op[2])
        sched.yield_point()
        return None
    if k == "sysyield":
        sched.yield_point()
        return None
    raise ValueError(op)


def _body(env, ti, prog):
    def body(sched, t):
        for oi, op in enumerate(prog):
            t.op = oi
            t.ev = 0
            t.op_steps = 0
            st = env.simtime if env.spec["mode"] == "sys" else None
            pre = (len(st.read_log), st.now_ns, len(st.set_log)) if st else None
            inv = sched.stamp()
            try:
                res = ("ok", _do_op(env, sched, ti, oi, op))
            except Exception as e:  # noqa: BLE001
                res = ("exc", type(e).__name__, str(e)[:200])
            ret = sched.stamp()
            post = (len(st.read_log), len(st.set_log)) if st else None
            env.hist.append([ti, oi, inv, ret, op, res, pre, post])

    return body


def execute(spec):
    """Run one simulated execution and judge it. Returns a JSON-able result."""
    env = _setup(spec)
    rng = random.Random(spec["seed"] ^ 0x5EED)
    strat = simsched.make_strategy(spec["strategy"], rng)
    sched = simsched.Scheduler(strat, max_steps=MAX_STEPS, max_op_steps=MAX_OP_STEPS, hot_files=HOT_FILES,
                               record_trace=bool(spec.get("record_trace")))  # fmt: skip
    for ti, prog in enumerate(spec["threads"]):
        sched.add_thread(_body(env, ti, prog))
    env.acq = []  # (thread, op) in the order in which clock-lock acquisitions happened: a linearization witness

    def on_acquire(lock, t):
        if lock.site.startswith("testing/_fake_clock.py"):
            env.acq.append((t.idx, t.op))

    sched.on_acquire = on_acquire
    if spec["mode"] == "sys":
        simclock.ACTIVE = env.simtime
        real0 = simclock.real_time_ns()
    try:
        sched.run()
    finally:
        if spec["mode"] == "sys":
            simclock.ACTIVE = None
            real1 = simclock.real_time_ns()
    out = {"prop": PROP, "mode": spec["mode"], "sched": sched.summary(), "switches": sched.switches, "notes": env.notes}
    if sched.trace is not None:
        out["trace"] = sched.trace
    probes = {}
    out["probes"] = probes
    probes["ops"] = len(env.hist)
    probes["blocked_on_lock"] = sched.blocked_events
    probes["switch_holding_lock"] = sched.switch_holding_lock
    if sched.aborted:
        return _judge_abort(env, sched, out)
    if spec["mode"] == "sys":
        return _judge_sys(env, out, real0, real1)
    # canonicalise observed results outside the simulation
    hist = []
    for ti, oi, inv, ret, op, res, _, _ in env.hist:
        if res[0] == "ok":
            v = res[1]
            if op[0] == "read":
                c = ["ok", _ns_of_instant(env, v)]
            elif op[0] == "gauto":
                c = ["ok", v.to_nanoseconds()]
            elif op[0] == "z":
                c = ["ok", _canon(env, op[2], v)]
            elif op[0] == "mkz":
                c = ["ok", v]
            else:
                c = ["ok", None if v is None else repr(v)]
        else:
            c = ["exc", res[1]]
        hist.append((ti, oi, inv, ret, op, c))
    out["history"] = [[h[0], h[1], h[2], h[3], h[4], h[5]] for h in hist]
    if spec["mode"] == "seq":
        return _judge_seq(env, hist, out)
    return _judge_conc(env, hist, out)


def _check_denormalised(env, out):
    if env.denormalised:
        _viol(out, "denormalised instant returned", f"a returned Instant has the right distance from the epoch ({env.denormalised[0]} ns) but is not equal to / does not hash like that instant")  # fmt: skip
        return True
    return False


def _viol(out, sig, detail):
    out["verdict"] = "violation"
    out["signature"] = sig
    out["detail"] = detail
    return out


def _judge_abort(env, sched, out):
    info = sched.abort_info
    out["abort"] = info
    blocked = [t for t in info["threads"] if t["state"] == 2]
    if info["reason"] == "deadlock":
        def fn(t, i):
            return t["stack"][i].rsplit(":", 1)[0] if len(t["stack"]) > i else "?"

        selfs = [t for t in blocked if t.get("owner") == t["idx"]]
        if selfs:
            # the cause is the thread that re-acquires a lock it already holds; everyone else merely waits for it
            t = selfs[0]
            sig = f"deadlock self-relock in {fn(t, 0)} called from {fn(t, 1)}"
        else:
            sig = "deadlock cycle at " + ",".join(sorted({fn(t, 0) for t in blocked}))
        return _viol(out, sig, "an operation never completes: every unfinished thread is blocked on a lock (" + "; ".join(f"thread {t['idx']} waits for {t.get('blocked_on')} held by thread {t.get('owner')}" for t in blocked[:4]) + ")")  # fmt: skip
    if info["reason"] == "op-step-cap":
        t = info["threads"][info["at_thread"]]
        site = t["stack"][0].rsplit(":", 1)[0] if t["stack"] else "?"
        return _viol(out, f"no-progress op exceeded {MAX_OP_STEPS} steps at {site}", "operation does not complete within bound")  # fmt: skip
    out["verdict"] = "inconclusive"
    out["signature"] = "step-cap"
    return out


_RANGE_EXC = ("OverflowError", "ValueError")


def _judge_seq(env, hist, out):
    spec = env.spec
    model = Model(spec["init"]["now"], spec["init"]["auto"])
    known = True  # is the clock's `now` known to the model?
    probes = out["probes"]
    for ti, oi, inv, ret, op, c in hist:
        if not known:
            # only a reset re-synchronises; anything else in between is not judged
            if op[0] == "reset":
                if c[0] != "ok":
                    return _viol(out, f"exception {op[0]} {c[1]}", f"op {oi} {op} raised {c[1]}")
                model.predict(op)
                known = True
            elif op[0] == "sauto":
                model.predict(op)
            continue
        pre_now = model.now
        p = model.predict(op)
        if p[0] == "range":
            probes["range_ops"] = probes.get("range_ops", 0) + 1
            if c[0] == "exc" and c[1] not in _RANGE_EXC:
                return _viol(out, f"exception {op[0]} {c[1]}", f"op {oi} {op}: out-of-range result raised {c[1]}, expected OverflowError/ValueError")  # fmt: skip
            if c[0] == "ok" and op[0] == "adv":
                # the model's value after this advance is not a representable Instant: the clock cannot "follow the model" by
                # silently holding it - the operation has to be refused
                return _viol(out, f"out-of-range {_opname(op)} accepted", f"op {oi} {op}: the clock accepted an advance that takes it outside the range of Instant (model value {pre_now} + {Model.amount(op)})")  # fmt: skip
            if c[0] == "ok" and op[0] in ("read", "z"):
                exp = ["ok", pre_now] if op[0] == "read" else _render(env, pre_now, op[1], op[2])
                if exp[0] == "ok" and c != exp:
                    return _viol(out, f"mismatch {_opname(op)}", f"op {oi} {op}: got {c[1]} expected {exp[1]}")
            known = False
            continue
        if p[0] == "none":
            if c[0] != "ok":
                return _viol(out, f"exception {_opname(op)} {c[1]}", f"op {oi} {op} raised {c[1]}: {_msg(env, ti, oi)}")
            if c[1] is not None:
                return _viol(out, f"mismatch {_opname(op)}", f"op {oi} {op} returned {c[1]}, expected None")
            continue
        exp = ["ok", p[1]] if p[0] == "val" else _render(env, p[1], op[1], op[2])
        if c != exp:
            if c[0] == "exc":
                return _viol(out, f"exception {_opname(op)} {c[1]}", f"op {oi} {op} raised {c[1]} ({_msg(env, ti, oi)}); model expects {exp}")  # fmt: skip
            if _is_arith_discrepancy(env, hist, oi):
                out["verdict"] = "inconclusive"
                out["signature"] = "arith-discrepancy (C03 domain)"
                return out
            return _viol(out, f"mismatch {_opname(op)}", f"op {oi} {op}: got {c} but the model predicts {exp} (model now={p[1]}, auto={model.auto})")  # fmt: skip
    if _check_denormalised(env, out):
        return out
    out["verdict"] = "ok"
    return out


def _msg(env, ti, oi):
    for h in env.hist:
        if h[0] == ti and h[1] == oi and h[5][0] == "exc":
            return h[5][2]
    return ""


def _opname(op):
    if op[0] == "adv":
        return "advance" if op[1] == "duration" else "advance_" + op[1]
    if op[0] == "z":
        return "zoned." + op[2]
    return {"read": "get_current_instant", "gauto": "auto_advance.get", "sauto": "auto_advance.set", "reset": "reset"}.get(op[0], op[0])  # fmt: skip


def _is_arith_discrepancy(env, hist, upto):
    """Would the library's own Instant+Duration arithmetic (C03's subject), applied step by step, give what the clock
    returned? If so the disagreement with the integer model is an arithmetic matter, not a clock matter."""
    try:
        spec = env.spec
        now = _inst(env, spec["init"]["now"])
        auto = _dur(spec["init"]["auto"])
        for ti, oi, inv, ret, op, c in hist:
            k = op[0]
            if k in ("read", "z"):
                if oi == upto:
                    got = c[1] if k == "read" else None
                    return k == "read" and _ns_of_instant(env, now) == got
                now = now + auto
            elif k == "adv":
                now = now + (_dur(op[2]) if op[1] == "duration" else getattr(env.Duration, "from_" + op[1])(op[2]))
            elif k == "reset":
                now = _inst(env, op[1])
            elif k == "sauto":
                auto = _dur(op[1])
    except Exception:  # noqa: BLE001
        return False
    return False


def _judge_conc(env, hist, out):
    spec = env.spec
    probes = out["probes"]
    for ti, oi, inv, ret, op, c in hist:
        if c[0] == "exc" and op[0] != "z":
            return _viol(out, f"exception {_opname(op)} {c[1]}", f"thread {ti} op {oi} {op} raised {c[1]}: {_msg(env, ti, oi)}")  # fmt: skip
    # direct clause: with a constant non-zero auto-advance and only reads, no instant is returned twice
    if spec["mode"] == "readers":
        seen = {}
        for ti, oi, inv, ret, op, c in hist:
            if c[0] != "ok" or op[0] not in ("read", "z"):
                continue
            v = c[1] if op[0] == "read" or op[2] == "instant" else c[1][1]
            if v in seen:
                return _viol(out, "duplicate-read", f"instant {v} returned to thread {seen[v]} and to thread {ti} with auto-advance {spec['init']['auto']}")  # fmt: skip
            seen[v] = ti
        probes["distinct_reads"] = len(seen)

    def apply(state, op, c):
        now, auto = state
        k = op[0]
        if k == "read":
            return (now + auto, auto) if c[1] == now else None
        if k == "z":
            return (now + auto, auto) if _render(env, now, op[1], op[2]) == c else None
        if k == "adv":
            return (now + Model.amount(op), auto)
        if k == "reset":
            return (op[1], auto)
        if k == "gauto":
            return state if c[1] == auto else None
        if k == "sauto":
            return (now, op[1])
        if k == "mkz":
            exp = [True, "UTC" if op[2] == "utc" else "Europe/London", "Julian" if op[2] == "cal" else "ISO"]
            return state if c[1] == exp else None
        return None

    h = [(inv, ret, op, c) for ti, oi, inv, ret, op, c in hist]
    # witness first: every clock operation takes the clock's lock exactly once, so the order of lock acquisitions is a
    # candidate linearization; replaying it through the model costs O(n). Only if it does not explain the results is the
    # full search needed (it may still find another order - the property does not say where the linearization point is).
    ok, info = None, {"nodes": 0, "order": []}
    pos = {}
    for k, key in enumerate(env.acq):
        pos.setdefault(key, k)
    if all((ti, oi) in pos for ti, oi, *_ in hist):
        order = sorted(range(len(hist)), key=lambda i: pos[(hist[i][0], hist[i][1])])
        state = (spec["init"]["now"], spec["init"]["auto"])
        for i in order:
            state = apply(state, hist[i][4], hist[i][5])
            if state is None:
                break
        if state is not None:
            ok, info = True, {"nodes": len(hist), "order": order}
            probes["lin_by_lock_order_witness"] = 1
    if ok is None:
        ok, info = linearize.check(h, (spec["init"]["now"], spec["init"]["auto"]), apply, max_nodes=1_500_000)
        probes["lin_full_search"] = 1
    probes["lin_nodes"] = info["nodes"]
    overlaps = 0
    srt = sorted(h)
    for i in range(len(srt) - 1):
        if srt[i + 1][0] < srt[i][1]:
            overlaps += 1
    probes["overlapping_ops"] = overlaps
    if ok is None:
        out["verdict"] = "inconclusive"
        out["signature"] = "linearizability-budget"
        return out
    if _check_denormalised(env, out):
        return out
    if not ok:
        stuck = [hist[i][4] for i in range(len(hist)) if i not in info["order"]][:4]
        kinds = sorted({_opname(o) for o in stuck})
        return _viol(out, "non-linearizable", f"no sequential order of the {len(hist)} operations explains the observed results; longest explained prefix {len(info['order'])} ops; unexplained e.g. {kinds}")  # fmt: skip
    out["verdict"] = "ok"
    return out


def _judge_sys(env, out, real0, real1):
    st = env.simtime
    probes = out["probes"]
    probes["os_reads"] = st.reads
    probes["os_sets"] = len(st.set_log)
    prev = env.spec["os0"]
    for v in st.set_log:
        if v < prev:
            probes["os_clock_backward_jumps"] = probes.get("os_clock_backward_jumps", 0) + 1
        elif v - prev > 10**9:
            probes["os_clock_forward_jumps_gt_1s"] = probes.get("os_clock_forward_jumps_gt_1s", 0) + 1
        else:
            probes["os_clock_ticks"] = probes.get("os_clock_ticks", 0) + 1
        if not INST_MIN <= v <= INST_MAX:
            probes["os_clock_out_of_instant_range"] = probes.get("os_clock_out_of_instant_range", 0) + 1
        if v < 0:
            probes["os_clock_before_1970"] = probes.get("os_clock_before_1970", 0) + 1
        prev = v
    probes["os_clock_span_ns"] = st.max_ns - st.min_ns
    insts = set()
    for ti, oi, inv, ret, op, res, pre, post in env.hist:
        if op[0] == "sysinst":
            if res[0] != "ok":
                return _viol(out, f"exception SystemClock.instance {res[1]}", f"thread {ti} op {oi}: {res[2]}")
            insts.add(id(res[1]))
            env.keep = getattr(env, "keep", []) + [res[1]]
            continue
        if op[0] != "sysread":
            continue
        held = {pre[1]} | {v for v in st.set_log[pre[2] : post[1]]}
        mine = [v for (who, tid, v) in st.read_log[pre[0] : post[0]] if tid == ti]
        if res[0] == "exc":
            if res[1] in _RANGE_EXC and all(not INST_MIN <= v <= INST_MAX for v in (mine or held)):
                probes["os_out_of_range_rejected"] = probes.get("os_out_of_range_rejected", 0) + 1
                continue
            return _viol(out, f"exception SystemClock.get_current_instant {res[1]}", f"thread {ti} op {oi} raised {res[1]}: {res[2]} (OS time candidates {sorted(held)[:3]})")  # fmt: skip
        got = _ns_of_instant(env, res[1])
        if not mine:
            # the read did not go through the time seam: compare with the real OS clock instead
            if real0 - 10**9 <= got <= real1 + 10**9:
                out["verdict"] = "inconclusive"
                out["signature"] = "seam-bypassed"
                return out
            return _viol(out, "sysclock-mismatch no-os-read", f"returned {got}, which is neither simulated nor real OS time")  # fmt: skip
        if len(mine) != 1:
            out["notes"].append(f"SystemClock read the OS clock {len(mine)} times in one call")
        if got not in mine and got not in held:
            return _viol(out, "sysclock-mismatch", f"thread {ti} op {oi}: returned {got} ns since epoch; OS clock held {sorted(set(mine) | held)[:4]}")  # fmt: skip
        if not INST_MIN <= got <= INST_MAX:
            return _viol(out, "sysclock-out-of-range-accepted", f"returned {got}")
        probes["os_reads_matched"] = probes.get("os_reads_matched", 0) + 1
    if _check_denormalised(env, out):
        return out
    if len(insts) > 1:
        return _viol(out, "sysclock-instance-not-singleton", f"{len(insts)} distinct SystemClock.instance objects observed in one run")  # fmt: skip
    out["verdict"] = "ok"
    return out


# ---------------------------------------------------------------------------------------------------------------------
# minimisation helpers: which parts of a spec may be dropped


def shrink_candidates(spec):
    """Yield smaller specs (threads dropped, ops dropped, values simplified). Schedules are re-based by the caller."""
    th = spec["threads"]
    for ti in range(len(th) - 1, -1, -1):
        if len(th) > 1:
            yield ("drop_thread", ti)
    for ti in range(len(th)):
        for oi in range(len(th[ti]) - 1, -1, -1):
            yield ("drop_op", ti, oi)
    if spec.get("zoned"):
        yield ("simplify_zoned",)


def apply_shrink(spec, cand):
    import copy

    s = copy.deepcopy(spec)
    if cand[0] == "drop_thread":
        del s["threads"][cand[1]]
    elif cand[0] == "drop_op":
        del s["threads"][cand[1]][cand[2]]
    elif cand[0] == "simplify_zoned":
        used = {op[1] for p in s["threads"] for op in p if op[0] == "z"}
        if used:
            return None
        s["zoned"] = []
    return s


def nontrivial_key(spec, res):
    """Distinct + non-trivial: a sequential program of >= 2 ops (by content), or a concurrent execution (by trace digest)
    with at least one voluntary context switch while inside one of the clock files."""
    import zlib

    sc = res.get("sched") or {}
    if spec["mode"] == "seq":
        if len(spec["threads"][0]) < 2:
            return None
        return "s%08x" % zlib.crc32(repr((spec["init"], spec["zoned"], spec["threads"])).encode())
    if sc.get("hot_switches", 0) < 1:
        return None
    return "c" + sc.get("digest", "")


RULE = (
    "one case = one simulated execution drawn from the run seed: (a) sequential program of 1-60 clock operations judged step by "
    "step against the integer model, (b) 2-16 threads sharing one FakeClock under a seeded schedule, judged by linearizability, "
    "(c) read-only threads with non-zero auto-advance, (d) SystemClock readers racing a virtual OS clock driver. Distinct = "
    "different program content (sequential) or different trace digest over (thread, function, line) of every scheduling step "
    "(concurrent); non-trivial = sequential program with >= 2 operations, or concurrent run with >= 1 voluntary context switch "
    "taken while executing inside _fake_clock.py/_system_clock.py/_zoned_clock.py or at a SimLock operation."
)
ASSUMPTIONS = [
    "pre-emption happens at statement granularity (sys.settrace line/call events in pyoda_time frames) and at every lock acquire/release; races inside one statement or inside C code are not explored",
    "Instant/Duration arithmetic used to build arguments and to observe results is trusted (it is C03's subject); a disagreement explained by that arithmetic alone is reported inconclusive",
    "the rendering Instant.in_zone(zone, calendar) is taken as the reference for ZonedClock getters (C05/C11's subject), cross-checked by the harness's own civil-date arithmetic for fixed offsets in ISO/Gregorian",
    "SystemClock is assumed to read the OS through the time module; a read that bypasses the seam is reported inconclusive (seam-bypassed) when it matches the real clock",
]


TIERS = {"quick": {"runs": 6000, "budget": 150.0}, "thorough": {"runs": 600_000, "budget": 1500.0}}


def main(a, boot_info):
    from sim import runner

    t = TIERS[a.tier]
    nruns = a.runs or t["runs"]
    budget = a.budget or t["budget"]
    code, agg = runner.check_property(
        sys.modules[__name__], a.tier, a.seed, nruns, a.workers, budget, "exploration", RULE, ASSUMPTIONS,
        extra_cov={"bootstrap": boot_info, "simulated_time": "scheduling steps (see scheduling_steps_total); OS-clock span in probes"},
    )  # fmt: skip
    return code
