#!/venv/bin/python
"""Regenerates MANIFEST.json from the table below (kept as code so the manifest is always schema-valid)."""
import json
import os

HERE = os.path.dirname(os.path.abspath(__file__))
props = [json.loads(line) for line in open(os.path.join(HERE, "properties.jsonl"))]

NA = {
    "C01": "pure arithmetic per (calendar, day number): no schedule, clock, stream fault or history in the statement; its only state, the year-start caches, is decided under C13",
    "C02": "differential comparison with published calendar algorithms over an input domain; no fault or schedule to simulate",
    "C03": "pure integer functions of the operands (Duration/Instant/Offset arithmetic); input-domain property, not a simulation target",
    "C04": "pure function of (zone data, instant); the caching wrapper's history dependence is C13, loader faults are C20",
    "C05": "pure function of (zone, local date-time, resolver); nothing for a scheduler or fault injector to vary",
    "C06": "needs an independent decoder of the bundled bytes as oracle over all zones; the stream is fault-free by hypothesis; lazy/concurrent materialisation is C13",
    "C07": "pure function of (pattern, culture, value); the 'formatting is deterministic under caching/threads' aspect is decided in C13",
    "C08": "for-all-strings claim on pure functions (fuzzing territory); no interleaving, clock or I/O fault involved",
    "C09": "pure functions of the operands (date arithmetic, Period.between laws)",
    "C10": "pure functions of the operands (time-of-day arithmetic and carry)",
    "C11": "pure functions of the operands; the clock behaviour reachable through ZonedClock is decided under C19",
    "C12": "algebraic laws over immutable values; no interleaving or fault in the statement; shared values used from several threads are exercised (not claimed) inside C13 runs",
    "C14": "write->read round trip over value domains on an in-memory stream that cannot fail; what a torn or partial write looks like to a reader is C20's truncation space",
    "C15": "pure conversion functions to/from datetime types",
    "C16": "pure functions (week-year rules, weekday navigation)",
    "C17": "differential comparison with other ISO-8601 implementations over a value domain",
    "C18": "pure functions (Interval/DateInterval set semantics)",
}

CHECKS = {
    "C13": {
        "engine": "simsched",
        "technique": "deterministic simulation: seeded baton-passing thread scheduler over real threads (statement-level pre-emption, SimLock), query histories with cache-aliasing keys; oracle = the same query evaluated alone in a fresh process, plus stated object identities",
        "category": "exploration",
        "text": "Seeded search over query histories and thread schedules against every shared cache and lazy singleton reachable from the public API (year-start caches, the global Hebrew cache, the 512-slot zone-interval cache, the provider's lazy zone map, provider/UTC/calendar/era singletons, the format-info cache with a shrunken size knob, per-format-info lazy tables and pattern caches, culture tables, thread-local current culture). Keys are generated to alias (years 1024 apart, 32-day periods 512 apart, more cultures than cache slots). Every answer of every run is compared with the answer of the same query evaluated alone in a fresh fork (empty history, single thread); zone-interval answers are additionally compared with the underlying (uncached) zone; identities promised by the statement are checked across all objects a run obtained; deadlocks are detected exactly. Two search modes: seeded random programs x strategies (uniform, site-biased, PCT, serial), and a systematic single-pre-emption sweep (for 60/500 pairs of queries that meet in one piece of shared state, query A is pre-empted once at every scheduling point that lies in a cache / lazy-singleton file, by a complete run of query B). Instants are centred on real zone transitions (including zones with two transitions in one cache period, found from the data), cultures include caller-customised mutable ones. Sampling, not proof.",
        "note": "Trusted: CPython thread/trace machinery; cold single-threaded evaluation as reference. Pre-emption only between statements and at lock operations; four pure decoding/helper files are not pre-emption points (partial-order reduction, DESIGN.md 3.1). Races inside C code (dict, ICU) are out of reach.",
        "ref": "DESIGN.md section 4 (C13), 3.1",
    },
    "C20": {
        "engine": "simio",
        "technique": "deterministic fault injection on the input stream: enumerated truncation points + seeded k<=4 byte substitute/insert/delete plans over the real database files; exception-type oracle, sys.monitoring work budget, memory limit",
        "category": "fault_enumeration",
        "text": "Every fault plan (truncate at offset t, or up to four byte edits) is applied to one of the two real .nzd files and fed through a fault-injecting stream to from_stream, id listing, provider construction and zone fetches (the lazily parsed zone bodies that the damage touches, their aliases, new ids, a sample of others). Each operation must return or raise the documented invalid-data error; 'promptly' is a deterministic count of function entries and loop iterations bounded at 20x the intact-file cost, memory is bounded by RLIMIT_AS and a tracemalloc peak bound. Inside the k<=4 corruption space, structured classes reach what uniform sampling cannot: varint inflation of lengths/counts, neighbour-copy byte values, reference-table mutations of the alias map (cycles, dangling, duplicate), 'UTC..'-like id rewrites, a sweep of small marker values over the last bytes of zone bodies, and a pinned regression corpus. The thorough tier enumerates every prefix of both files (259,704 truncations) and the zone-tail sweep over every zone exhaustively and samples ~250k corruption plans; the quick tier covers all structural boundaries, a sample of the sweep and ~3.4k seeded corruptions.",
        "note": "Trusted: the stream has BufferedIOBase semantics (no OSError, no short read before EOF); C-level loops are only covered by a wall watchdog; the k<=4 corruption space (~1e20 plans) is sampled, stratified by structural region, not enumerated.",
        "ref": "DESIGN.md section 4 (C20), 3.3",
    },
    "C19": {
        "engine": "simsched+simclock",
        "technique": "deterministic simulation: seeded baton-passing thread scheduler + SimLock + virtual OS clock; model-based oracle (step-by-step and linearizability), exact deadlock detection",
        "category": "exploration",
        "text": "Seeded search over operation histories and thread schedules of FakeClock/ZonedClock/SystemClock executed by real threads under a scheduler that owns every context switch (statement granularity) and every lock; each run is judged against the trivial integer model (sequentially step by step, concurrently by a Wing-Gong linearizability search), deadlocks are detected exactly and every operation has a step bound. Sampling, not proof: a clean batch is evidence over the explored seeds.",
        "note": "Trusted: CPython thread/trace machinery; Instant/Duration arithmetic used to build and observe values (C03); Instant.in_zone as rendering reference (cross-checked by own civil arithmetic for fixed offsets). Pre-emption only between statements and at lock operations.",
        "ref": "DESIGN.md section 4 (C19), 3.1, 3.2",
    },
}

m = {
    "version": 1,
    "setup_cmd": "/venv/bin/python /verif/check setup",
    "hooks": {
        "guard": "PYODA_TIME_VERIF",
        "enable": "no hooks were needed in /repo: every seam (threading.Lock, the time module, the stream argument, thread scheduling via sys.settrace) is reachable from outside; checks put /repo's working tree first on sys.path",
        "baseline_off_cmd": "cd /repo && /venv/bin/python -m pytest -ra -q -p no:cacheprovider --timeout=900 --continue-on-collection-errors",
        "source_commits": [],
        "add_only": True,
    },
    "engines": [
        {"name": "simsched", "path": "sim/simsched.py", "serves_properties": ["C13", "C19"], "kind_free_text": "deterministic scheduler for real threads: baton passing, sys.settrace pre-emption points, SimLock with exact deadlock detection, seeded strategies (uniform, site-biased, PCT, serial), scripted replay"},
        {"name": "simclock", "path": "sim/simclock.py", "serves_properties": ["C19"], "kind_free_text": "virtual operating-system clock behind time.time_ns/time/clock_gettime with a scheduled driver actor (ticks, forward/backward jumps, out-of-range values)"},
        {"name": "simio", "path": "sim/simio.py", "serves_properties": ["C20"], "kind_free_text": "fault-injecting input stream (truncation, byte substitute/insert/delete) over the real tz database files, with a deterministic work budget (sys.monitoring event counts) and memory limit"},
    ],
    "checks": [],
    "not_applicable": [],
    "notes": "Technique family: deterministic simulation with fault injection. C13/C19/C20 are the properties with a schedule, clock, stream fault or history in their statement; the other 17 are pure functions of their inputs (DESIGN.md section 6). No hook was needed in /repo (source_commits is empty); /repo carries eleven unguarded 'fix:' commits for genuine defects the checks found (known_findings.json, 'fixed' entries; DESIGN.md 12.2); known_findings.json has no 'known' entry, so nothing is suppressed. Other entry points: ./check selftest (determinism), ./check mutants all (sensitivity against mutants/ and seeded/, results in evidence/mutants.json), ./check <ID> --replay FILE.",
}
for p in props:
    pid = p["id"]
    c = CHECKS.get(pid)
    if c and os.path.exists(os.path.join(HERE, "props", pid.lower() + ".py")):
        m["checks"].append({
            "property_id": pid,
            "quick_cmd": f"/verif/check {pid} quick",
            "thorough_cmd": f"/verif/check {pid} thorough",
            "evidence_file": f"/verif/evidence/{pid}.json",
            "replay_cmd_template": f"/verif/check {pid} --replay {{path}}",
            "engine": c["engine"],
            "technique": c["technique"],
            "level_claimed": {"category": c["category"], "text": c["text"], "design_ref": c["ref"]},
            "level_note": c["note"],
        })
    elif pid in NA:
        m["not_applicable"].append({"property_id": pid, "reason": NA[pid]})
    else:
        m["not_applicable"].append({"property_id": pid, "reason": "applicable to this technique (DESIGN.md section 4) but its check is not registered yet"})
json.dump(m, open(os.path.join(HERE, "MANIFEST.json"), "w"), indent=1)
print("checks:", [c["property_id"] for c in m["checks"]], "n/a:", len(m["not_applicable"]))
