"""Runner: seeds -> simulated runs on all cores -> verdicts, replay files, evidence (DESIGN.md sections 3.4, 7, 8)."""

from __future__ import annotations

import copy
import hashlib
import json
import os
import select
import sys
import time

from . import bootstrap

VERIF = os.path.dirname(os.path.dirname(os.path.abspath(__file__)))
KNOWN_FILE = os.path.join(VERIF, "known_findings.json")
OUT_DIR = VERIF  # evidence/ and replays/ live here; --out redirects both (used when checking a scratch copy)


def derive_seed(master: int, prop: str, k: int) -> int:
    h = hashlib.sha256(f"{master}:{prop}:{k}".encode()).digest()
    return int.from_bytes(h[:7], "big")


def load_known(prop):
    try:
        with open(KNOWN_FILE) as f:
            data = json.load(f)
    except FileNotFoundError:
        return {}
    return {e["signature"]: e for e in data.get("known", []) if e["property"] == prop}


# ---------------------------------------------------------------------------------------------------------------------
# worker side


def _worker(mod, master_seed, widx, nworkers, nruns, deadline, wall_timeout, keep_per_sig, out_fd):
    agg = {
        "runs": 0, "ok": 0, "violation": 0, "inconclusive": 0, "harness": 0, "steps": 0, "switches": 0,
        "probes": {}, "modes": {}, "strategies": {}, "verdict_sigs": {}, "keys": [], "violations": {}, "harness_samples": [],
        "samples": [], "notes": {}, "first_k_skipped": None, "fps": {},
    }  # fmt: skip
    k = widx
    gen_case = getattr(mod, "gen_case", None)
    while k < nruns:
        if deadline is not None and time.monotonic() > deadline:
            agg["first_k_skipped"] = k
            break
        if gen_case is not None:
            spec = gen_case(master_seed, k)
            rs = spec["seed"]
        else:
            rs = derive_seed(master_seed, mod.PROP, k)
            spec = mod.gen_run(rs)
        res = bootstrap.run_in_fork(mod.execute, spec, wall_timeout)
        agg["runs"] += 1
        if k < FP_K:
            agg["fps"][str(k)] = _fingerprint(res)
        if "harness" in res:
            agg["harness"] += 1
            if len(agg["harness_samples"]) < 3:
                agg["harness_samples"].append({"k": k, "run_seed": rs, "res": res})
            k += nworkers
            continue
        v = res["verdict"]
        agg[v] += 1
        sc = res.get("sched") or {}
        agg["steps"] += sc.get("steps", 0)
        agg["switches"] += sc.get("voluntary", 0)
        m = spec.get("mode", "-")
        agg["modes"][m] = agg["modes"].get(m, 0) + 1
        sk = (spec.get("strategy") or {}).get("kind", "-")
        agg["strategies"][sk] = agg["strategies"].get(sk, 0) + 1
        for pk, pv in (res.get("probes") or {}).items():
            if isinstance(pv, (int, float)):
                agg["probes"][pk] = agg["probes"].get(pk, 0) + pv
                if pv:
                    agg["probes"]["runs_with:" + pk] = agg["probes"].get("runs_with:" + pk, 0) + 1
        for n in res.get("notes") or []:
            n = n[:160]
            agg["notes"][n] = agg["notes"].get(n, 0) + 1
        key = mod.nontrivial_key(spec, res)
        if key is not None:
            agg["keys"].append(key)
        if v != "ok":
            sig = res.get("signature", "?")
            agg["verdict_sigs"][v + ": " + sig] = agg["verdict_sigs"].get(v + ": " + sig, 0) + 1
        if v == "violation":
            lst = agg["violations"].setdefault(res["signature"], [])
            if len(lst) < keep_per_sig:
                lst.append({"k": k, "run_seed": rs, "spec": spec, "res": _slim(res)})
        elif len(agg["samples"]) < 2 and key is not None:
            agg["samples"].append({"run_seed": rs, "spec": _clip(spec), "verdict": v, "sched": sc})
        k += nworkers
    data = json.dumps(agg).encode()
    with os.fdopen(out_fd, "wb") as f:
        f.write(data)


FP_K = 32  # the first FP_K cases of every batch are fingerprinted and re-run for the built-in determinism re-check


def _fingerprint(res):
    if isinstance(res.get("probes"), dict) and any(k.startswith("rss_") for k in res["probes"]):
        res = dict(res)
        res["probes"] = {k: v for k, v in res["probes"].items() if not k.startswith("rss_")}  # OS memory accounting is not replayable
    return hashlib.sha256(json.dumps(res, sort_keys=True, default=str).encode()).hexdigest()[:16]


def _slim(res):
    r = dict(res)
    r.pop("trace", None)
    h = r.get("history")
    if h and len(h) > 80:
        r["history"] = h[:80]
    return r


def _clip(spec, n=12):
    s = copy.deepcopy(spec)
    for i, p in enumerate(s.get("threads", [])):
        if len(p) > n:
            s["threads"][i] = p[:n] + [f"... {len(p) - n} more ops"]
    return s


# ---------------------------------------------------------------------------------------------------------------------
# main side


def run_batch(mod, master_seed, nruns, nworkers, time_budget=None, wall_timeout=60.0, keep_per_sig=2):
    """Fork `nworkers` workers from the (already bootstrapped) pristine parent; merge their aggregates."""
    deadline = None if time_budget is None else time.monotonic() + time_budget
    pipes = {}
    pids = []
    for w in range(nworkers):
        r, wfd = os.pipe()
        pid = os.fork()
        if pid == 0:
            code = 0
            try:
                os.close(r)
                for fd in pipes:
                    os.close(fd)
                _worker(mod, master_seed, w, nworkers, nruns, deadline, wall_timeout, keep_per_sig, wfd)
            except BaseException:  # noqa: BLE001
                import traceback

                traceback.print_exc()
                code = 3
            finally:
                os._exit(code)
        os.close(wfd)
        pipes[r] = [w, []]
        pids.append(pid)
    open_fds = set(pipes)
    while open_fds:
        ready, _, _ = select.select(list(open_fds), [], [], 5.0)
        for fd in ready:
            b = os.read(fd, 1 << 20)
            if b:
                pipes[fd][1].append(b)
            else:
                open_fds.discard(fd)
                os.close(fd)
    for pid in pids:
        os.waitpid(pid, 0)
    total = None
    dead = 0
    for fd, (w, chunks) in pipes.items():
        raw = b"".join(chunks)
        if not raw:
            dead += 1
            continue
        a = json.loads(raw)
        total = a if total is None else _merge(total, a)
    if total is None:
        total = {"runs": 0}
    total["dead_workers"] = dead
    return total


def _merge(a, b):
    for k in ("runs", "ok", "violation", "inconclusive", "harness", "steps", "switches"):
        a[k] += b[k]
    for k in ("probes", "modes", "strategies", "verdict_sigs", "notes"):
        for kk, vv in b[k].items():
            a[k][kk] = a[k].get(kk, 0) + vv
    a["keys"].extend(b["keys"])
    a["fps"].update(b["fps"])
    for sig, lst in b["violations"].items():
        a["violations"].setdefault(sig, []).extend(lst)
    a["harness_samples"].extend(b["harness_samples"])
    a["samples"].extend(b["samples"])
    if b["first_k_skipped"] is not None:
        a["first_k_skipped"] = b["first_k_skipped"] if a["first_k_skipped"] is None else min(a["first_k_skipped"], b["first_k_skipped"])  # fmt: skip
    return a


# ---------------------------------------------------------------------------------------------------------------------
# replay + minimisation


def replay_spec_from(spec, res):
    """Turn a failing run into an explicit-schedule spec (no PRNG in the schedule any more)."""
    s = copy.deepcopy(spec)
    if "switches" in res and res["switches"] is not None and "strategy" in s:
        s["strategy"] = {"kind": "scripted", "switches": res["switches"]}
    return s


def rebase_switches(switches, cand):
    out = []
    if cand[0] == "drop_thread":
        ti = cand[1]
        for a, b, c, d in switches:
            if a == ti or d == ti:
                continue
            out.append([a - (a > ti), b, c, d - (d > ti)])
        return out
    if cand[0] == "drop_op":
        ti, oi = cand[1], cand[2]
        for a, b, c, d in switches:
            if a == ti and b == oi:
                continue
            out.append([a, b - 1 if (a == ti and b > oi) else b, c, d])
        return out
    return [list(x) for x in switches]


def run_once(mod, spec, wall_timeout=60.0):
    return bootstrap.run_in_fork(mod.execute, spec, wall_timeout)


def minimise(mod, spec, signature, budget_s=60.0, max_trials=500):
    """Greedy delta debugging: keep a smaller spec only if the same violation signature recurs."""
    t_end = time.monotonic() + budget_s
    trials = 0

    def same(s):
        nonlocal trials
        trials += 1
        r = run_once(mod, s)
        return r.get("verdict") == "violation" and r.get("signature") == signature

    cur = spec
    changed = True
    while changed and time.monotonic() < t_end and trials < max_trials:
        changed = False
        for cand in list(mod.shrink_candidates(cur)):
            if time.monotonic() > t_end or trials >= max_trials:
                break
            s = mod.apply_shrink(cur, cand)
            if s is None:
                continue
            if s.get("strategy", {}).get("kind") == "scripted":
                s["strategy"]["switches"] = rebase_switches(s["strategy"]["switches"], cand)
            if same(s):
                cur = s
                changed = True
                break
    # then drop schedule switch points (chunks first, then singles)
    if cur.get("strategy", {}).get("kind") == "scripted":
        sw = cur["strategy"]["switches"]
        # shortest prefix of the schedule that still reproduces (after it: no more voluntary switches, forced hand-overs go
        # to the lowest-numbered runnable thread) - a binary search, then chunk removal on what is left
        lo, hi = 0, len(sw)
        while lo < hi and time.monotonic() < t_end and trials < max_trials:
            mid = (lo + hi) // 2
            s = copy.deepcopy(cur)
            s["strategy"]["switches"] = sw[:mid]
            if same(s):
                hi = mid
            else:
                lo = mid + 1
        if hi < len(sw):
            s = copy.deepcopy(cur)
            s["strategy"]["switches"] = sw[:hi]
            if same(s):
                sw = sw[:hi]
                cur = s
        n = max(1, len(sw) // 2)
        while n >= 1 and time.monotonic() < t_end and trials < max_trials:
            i = 0
            progressed = False
            while i < len(sw) and time.monotonic() < t_end and trials < max_trials:
                cand_sw = sw[:i] + sw[i + n :]
                s = copy.deepcopy(cur)
                s["strategy"]["switches"] = cand_sw
                if same(s):
                    sw = cand_sw
                    cur = s
                    progressed = True
                else:
                    i += n
            if n == 1 and not progressed:
                break
            n = n // 2 if n > 1 else (1 if progressed else 0)
        cur["strategy"]["switches"] = sw
    return cur, trials


def write_replay(prop, tag, spec, res, minimised, extra=None):
    d = os.path.join(OUT_DIR, "replays")
    os.makedirs(d, exist_ok=True)
    h = hashlib.sha256(json.dumps([res.get("signature"), spec], sort_keys=True).encode()).hexdigest()[:10]
    path = os.path.join(d, f"{prop}-{tag}-{h}.json")
    doc = {
        "property": prop,
        "signature": res.get("signature"),
        "detail": res.get("detail"),
        "minimised": minimised,
        "digest": (res.get("sched") or {}).get("digest"),
        "spec": spec,
    }
    if extra:
        doc.update(extra)
    with open(path, "w") as f:
        json.dump(doc, f, indent=1)
    return path


def _clean_replays(prop):
    d = os.path.join(OUT_DIR, "replays")
    if os.path.isdir(d):
        for fn in os.listdir(d):
            if fn.startswith(prop + "-raw-") or fn.startswith(prop + "-min-"):
                os.unlink(os.path.join(d, fn))


def do_replay(mod, path):
    with open(path) as f:
        doc = json.load(f)
    res = run_once(mod, doc["spec"])
    same_sig = res.get("verdict") == "violation" and res.get("signature") == doc["signature"]
    dig = (res.get("sched") or {}).get("digest")
    print(f"replay {path}: verdict={res.get('verdict', res.get('harness'))} signature={res.get('signature')!r}")
    if res.get("detail"):
        print("  " + str(res["detail"]))
    if doc.get("digest") is not None:
        print(f"  trace digest recorded={doc['digest']} now={dig} {'(identical)' if dig == doc['digest'] else '(DIFFERENT)'}")
    if same_sig:
        print(f"VIOLATION property={doc['property']} replay={path}")
        return 1
    print("NOT-REPRODUCED")
    return 0 if res.get("verdict") == "ok" else 2


# ---------------------------------------------------------------------------------------------------------------------
# the tier driver


def check_property(mod, tier, master_seed, nruns, nworkers, time_budget, level, rule, assumptions, extra_cov=None, wall_timeout=60.0):  # fmt: skip
    prop = mod.PROP
    t0 = time.monotonic()
    agg = run_batch(mod, master_seed, nruns, nworkers, time_budget, wall_timeout)
    wall_runs = time.monotonic() - t0
    known = load_known(prop)
    exit_code = 0
    lines = []
    viol_reports = []
    if agg.get("dead_workers"):
        print(f"HARNESS-ERROR: {agg['dead_workers']} worker(s) died without reporting", file=sys.stderr)
        exit_code = 2
    if agg["runs"] and agg["harness"] > max(3, agg["runs"] // 200):
        print(f"HARNESS-ERROR: {agg['harness']} of {agg['runs']} runs did not report: {agg['harness_samples'][:1]}", file=sys.stderr)  # fmt: skip
        exit_code = 2
    n_new = 0
    _clean_replays(prop)
    for sig, lst in sorted(agg.get("violations", {}).items(), key=lambda kv: (-len(kv[1]), kv[0])):
        first = lst[0]
        if sig in known:
            lines.append(f"KNOWN-FINDING: property={prop} {sig} :: {known[sig].get('what', '')}")
            continue
        n_new += 1
        if n_new > 12:
            lines.append(f"  (further distinct violation signature not expanded: {sig})")
            continue
        rspec = replay_spec_from(first["spec"], first["res"])
        check = run_once(mod, rspec)
        reproduced = check.get("verdict") == "violation" and check.get("signature") == sig
        same_digest = (check.get("sched") or {}).get("digest") == (first["res"].get("sched") or {}).get("digest")
        raw_path = write_replay(prop, "raw", rspec, first["res"], False, {"run_seed": first["run_seed"]})
        path = raw_path
        mini_info = None
        if reproduced and n_new <= 6:
            mspec, trials = minimise(mod, rspec, sig)
            mres = run_once(mod, mspec)
            if mres.get("verdict") == "violation" and mres.get("signature") == sig:
                path = write_replay(prop, "min", mspec, mres, True, {"run_seed": first["run_seed"], "raw": raw_path})
                mini_info = {"trials": trials, "threads": len(mspec.get("threads", [])), "ops": sum(len(p) for p in mspec.get("threads", [])), "switches": len((mspec.get("strategy") or {}).get("switches", []))}  # fmt: skip
        lines.append(f"VIOLATION property={prop} replay={path}")
        lines.append(f"  signature: {sig}")
        lines.append(f"  detail: {first['res'].get('detail')}")
        lines.append(f"  run_seed={first['run_seed']} replay-reproduced={reproduced} same-trace-digest={same_digest} minimised={mini_info}")  # fmt: skip
        viol_reports.append({"signature": sig, "replay": path, "count_in_sample": len(lst), "minimised": mini_info})
        exit_code = max(exit_code, 1)
    # built-in determinism re-check: the first FP_K cases again, on a different number of workers
    recheck = {"cases": 0, "divergent": []}
    if agg.get("fps"):
        k2 = min(FP_K, nruns)
        agg2 = run_batch(mod, master_seed, k2, 5 if nworkers != 5 else 3, None, wall_timeout)
        for kk, fp in agg2.get("fps", {}).items():
            if kk in agg["fps"]:
                recheck["cases"] += 1
                if agg["fps"][kk] != fp:
                    recheck["divergent"].append(int(kk))
        if recheck["divergent"]:
            print(f"HARNESS-ERROR: nondeterminism: cases {recheck['divergent'][:8]} gave different executions when re-run", file=sys.stderr)  # fmt: skip
            exit_code = 2
    wall = time.monotonic() - t0
    keys = set(agg.get("keys", []))
    cov = {
        "evaluations": agg["runs"],
        "distinct_nontrivial": len(keys),
        "rule": rule,
        "samples": agg.get("samples", [])[:4],
        "runs_requested": nruns,
        "runs_per_hour": int(agg["runs"] / max(wall_runs, 1e-9) * 3600),
        "verdicts": {k: agg.get(k, 0) for k in ("ok", "violation", "inconclusive", "harness")},
        "non_ok_signatures": agg.get("verdict_sigs", {}),
        "modes": agg.get("modes", {}),
        "strategies_fired": agg.get("strategies", {}),
        "scheduling_steps_total": agg.get("steps", 0),
        "voluntary_context_switches_total": agg.get("switches", 0),
        "probes": agg.get("probes", {}),
        "notes": agg.get("notes", {}),
        "violation_reports": viol_reports,
        "known_findings_seen": [ln for ln in lines if ln.startswith("KNOWN-FINDING")],
        "time_budget_cut_at_run": agg.get("first_k_skipped"),
        "determinism_recheck": recheck,
        "workers": nworkers,
        "real_vs_stub": {
            "real": "all of pyoda_time from the working tree, ICU, CPython threads and thread-local storage, the two tz database files",
            "stubbed": "threading.Lock (SimLock), the OS scheduler (baton passing), time.time_ns/time/clock_gettime (SimTime), the input stream (SimStream)",
            "not_exercised": "real file I/O timing; get_system_default (unimplemented in the repository)",
        },
    }  # fmt: skip
    if callable(extra_cov):
        cov.update(extra_cov(agg))
    elif extra_cov:
        cov.update(extra_cov)
    ev = {
        "property_id": prop,
        "tier": tier,
        "seed": master_seed,
        "level": level,
        "coverage": cov,
        "assumptions": assumptions,
        "wall_s": round(wall, 2),
        "violations": n_new,
    }
    os.makedirs(os.path.join(OUT_DIR, "evidence"), exist_ok=True)
    with open(os.path.join(OUT_DIR, "evidence", f"{prop}.json"), "w") as f:
        json.dump(ev, f, indent=1)
    with open(os.path.join(OUT_DIR, "evidence", f"{prop}.{tier}.json"), "w") as f:
        json.dump(ev, f, indent=1)  # kept per tier: the plain file is rewritten by whichever tier ran last
    for ln in lines:
        print(ln)
    print(f"{prop} {tier}: runs={agg['runs']} ok={agg.get('ok', 0)} violation={agg.get('violation', 0)} inconclusive={agg.get('inconclusive', 0)} harness={agg.get('harness', 0)} distinct_nontrivial={len(keys)} wall={wall:.1f}s exit={exit_code}")  # fmt: skip
    return exit_code, agg
