"""Bootstrap shared by every check: ICU preload, seam shims, import-all, fork runner.

Order matters (DESIGN.md section 2):
  preload ICU -> install shims (threading.Lock factory, time functions) -> import every pyoda_time module.
After `bootstrap()` the process is the *pristine parent*: nothing lazy in pyoda_time has been touched, and every
simulated run is a fork() of it.
"""

from __future__ import annotations

import ctypes
import glob
import importlib
import json
import os
import pkgutil
import select
import signal
import sys
import time as _real_time_module

HARNESS_ERROR = 2

_ICU_LIBS = ("libicudata.so.73", "libicuuc.so.73", "libicui18n.so.73")

REPO = None  # absolute path of the repository root in use
PKG_PREFIX = None  # REPO + "/pyoda_time/"


class HarnessError(Exception):
    pass


def _icu_candidates():
    env = os.environ.get("VERIF_ICU_LIBDIR")
    if env:
        yield env
    here = os.path.dirname(os.path.dirname(os.path.abspath(__file__)))
    yield os.path.join(here, "vendor", "icu")
    yield from sorted(glob.glob("/root/miniconda/pkgs/icu-73*/lib"))
    yield "/root/miniconda/lib"
    yield from sorted(glob.glob("/root/miniconda/envs/*/lib"))


def preload_icu() -> str:
    """Make `import icu` work without LD_LIBRARY_PATH. Returns the directory used ('' if the loader already finds it)."""
    try:
        for lib in _ICU_LIBS:
            ctypes.CDLL(lib, mode=ctypes.RTLD_GLOBAL)
        return ""
    except OSError:
        pass
    for d in _icu_candidates():
        if all(os.path.exists(os.path.join(d, lib)) for lib in _ICU_LIBS):
            for lib in _ICU_LIBS:
                ctypes.CDLL(os.path.join(d, lib), mode=ctypes.RTLD_GLOBAL)
            return d
    raise HarnessError("ICU 73 shared libraries not found (set VERIF_ICU_LIBDIR)")


def ensure_hashseed():
    """Re-exec with PYTHONHASHSEED fixed (default 0) so set/dict-of-str iteration order cannot differ between runs."""
    want = os.environ.get("VERIF_HASHSEED", "0")
    if os.environ.get("PYTHONHASHSEED") != want:
        os.environ["PYTHONHASHSEED"] = want
        os.execv(sys.executable, [sys.executable] + sys.argv)


def bootstrap(repo: str = "/repo") -> dict:
    """Turn this process into the pristine parent. Idempotent."""
    global REPO, PKG_PREFIX
    repo = os.path.realpath(repo)
    if REPO is not None:
        if REPO != repo:
            raise HarnessError("bootstrap called twice with different repositories")
        return {}
    t0 = _real_time_module.perf_counter()
    icu_dir = preload_icu()
    from . import simsched, simclock

    sys.path.insert(0, repo)
    REPO = repo
    PKG_PREFIX = os.path.join(repo, "pyoda_time") + os.sep
    simsched.install_lock_shim(PKG_PREFIX)
    simclock.install_time_shims()
    import pyoda_time

    pkg_file = os.path.realpath(pyoda_time.__file__)
    if not pkg_file.startswith(PKG_PREFIX):
        raise HarnessError(f"pyoda_time imported from {pkg_file}, expected under {PKG_PREFIX}")
    n = 0
    for m in pkgutil.walk_packages(pyoda_time.__path__, "pyoda_time."):
        importlib.import_module(m.name)
        n += 1
    return {
        "icu_dir": icu_dir,
        "modules_imported": n,
        "sim_locks_created_at_import": simsched.SimLock.created,
        "bootstrap_s": round(_real_time_module.perf_counter() - t0, 3),
    }


# ---------------------------------------------------------------------------------------------------------------------
# fork runner: one simulated run = one fork of the pristine parent


def run_in_fork(fn, arg, wall_timeout: float = 60.0):
    """Run fn(arg) in a forked child; return its JSON-able result.

    Returns {"harness": "timeout"} / {"harness": "crash", ...} for runs that did not report; those are never counted as
    'held' by callers.
    """
    r, w = os.pipe()
    pid = os.fork()
    if pid == 0:
        code = 0
        try:
            os.close(r)
            import faulthandler

            faulthandler.enable()
            faulthandler.dump_traceback_later(max(1.0, wall_timeout - 1.0), exit=False)
            try:
                res = fn(arg)
            except BaseException as e:  # noqa: BLE001 - report everything
                import traceback

                res = {"harness": "exception", "type": type(e).__name__, "trace": traceback.format_exc()[-4000:]}
            data = json.dumps(res).encode()
            with os.fdopen(w, "wb") as f:
                f.write(data)
        except BaseException:  # noqa: BLE001
            code = 3
        finally:
            os._exit(code)
    os.close(w)
    chunks = []
    deadline = _real_time_module.monotonic() + wall_timeout
    timed_out = False
    while True:
        left = deadline - _real_time_module.monotonic()
        if left <= 0:
            timed_out = True
            break
        ready, _, _ = select.select([r], [], [], left)
        if not ready:
            timed_out = True
            break
        b = os.read(r, 1 << 16)
        if not b:
            break
        chunks.append(b)
    os.close(r)
    if timed_out:
        try:
            os.kill(pid, signal.SIGKILL)
        except ProcessLookupError:
            pass
    _, status = os.waitpid(pid, 0)
    if timed_out:
        return {"harness": "timeout"}
    raw = b"".join(chunks)
    if not raw:
        return {"harness": "crash", "status": status}
    try:
        return json.loads(raw)
    except ValueError:
        return {"harness": "crash", "status": status, "raw": raw[:200].decode("latin1")}


def parallel_map(fn, items, workers, wall_timeout=120.0):
    """[run_in_fork(fn, x) for x in items] spread over `workers` forked helpers; order preserved. Each item still runs in its
    own fresh fork of this (pristine) process."""
    items = list(items)
    if not items:
        return []
    workers = max(1, min(workers, len(items)))
    pipes = {}
    pids = []
    for w in range(workers):
        r, wfd = os.pipe()
        pid = os.fork()
        if pid == 0:
            code = 0
            try:
                os.close(r)
                out = [run_in_fork(fn, x, wall_timeout) for x in items[w::workers]]
                with os.fdopen(wfd, "wb") as f:
                    f.write(json.dumps(out).encode())
            except BaseException:  # noqa: BLE001
                code = 3
            finally:
                os._exit(code)
        os.close(wfd)
        pipes[r] = (w, [])
        pids.append(pid)
    openfds = set(pipes)
    while openfds:
        ready, _, _ = select.select(list(openfds), [], [], 5.0)
        for fd in ready:
            b = os.read(fd, 1 << 20)
            if b:
                pipes[fd][1].append(b)
            else:
                openfds.discard(fd)
                os.close(fd)
    for pid in pids:
        os.waitpid(pid, 0)
    res = [None] * len(items)
    for w, chunks in pipes.values():
        raw = b"".join(chunks)
        if not raw:
            raise HarnessError("parallel_map helper died")
        for j, v in enumerate(json.loads(raw)):
            res[w + j * workers] = v
    return res
