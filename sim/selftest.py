"""Determinism self-test (DESIGN.md section 9): the same run seed must give the same execution, bit for bit,

* twice in the same interpreter (two forks of one pristine parent),
* across worker counts (1 and 16),
* across PYTHONHASHSEED values in fresh interpreters.

`./check selftest` drives it; `./check fingerprints <ID>` (internal) prints {k: fingerprint} for one configuration.
A divergence is a harness error (exit 2): no verdict of the machinery can be trusted while it exists.
"""

from __future__ import annotations

import hashlib
import importlib
import json
import os
import subprocess
import sys
import time

from . import bootstrap, runner

PROPS = ["c19", "c20", "c13"]
VERIF = os.path.dirname(os.path.dirname(os.path.abspath(__file__)))


def fingerprint(res):
    return runner._fingerprint(res)


class _FpMod:
    """Wraps a property module so the batch runner collects fingerprints as 'keys'."""

    def __init__(self, mod):
        self.mod = mod
        self.PROP = mod.PROP
        self.gen_run = mod.gen_run
        self.execute = mod.execute
        if hasattr(mod, "gen_case"):
            self.gen_case = mod.gen_case

    def nontrivial_key(self, spec, res):
        return f"{spec['seed']}:{fingerprint(res)}"


def fingerprints(mod, master_seed, n, workers):
    if hasattr(mod, "prepare"):
        mod.prepare("selftest", master_seed, workers)
    agg = runner.run_batch(_FpMod(mod), master_seed, n, workers, None, 120.0)
    out = {}
    for k in agg.get("keys", []):
        s, fp = k.split(":")
        out[s] = fp
    # harness failures and violations still count: they carry fingerprints through keys only when reported
    return out, agg


def cmd_fingerprints(a):
    bootstrap.bootstrap(a.repo)
    mod = importlib.import_module("props." + a.tier.lower())
    fps, agg = fingerprints(mod, a.seed, a.n or 64, a.workers)
    print(json.dumps({"fps": fps, "runs": agg["runs"], "harness": agg.get("harness", 0)}))
    return 0


def _sub(prop, repo, seed, n, workers, hashseed):
    env = dict(os.environ)
    env["VERIF_HASHSEED"] = str(hashseed)
    env.pop("PYTHONHASHSEED", None)
    p = subprocess.run(
        [sys.executable, os.path.join(VERIF, "check"), "fingerprints", prop, "--repo", repo, "--seed", str(seed), "--n", str(n), "--workers", str(workers)],
        env=env, capture_output=True, text=True, timeout=3600,
    )  # fmt: skip
    if p.returncode != 0:
        raise bootstrap.HarnessError(f"fingerprints {prop} failed: {p.stderr[-2000:]}")
    return json.loads(p.stdout.strip().splitlines()[-1])


def main(a):
    n = a.n or 48
    t0 = time.monotonic()
    bad = 0
    report = {}
    for p in PROPS:
        if not os.path.exists(os.path.join(VERIF, "props", p + ".py")):
            continue
        if a.only and a.only.lower() != p:
            continue
        base = _sub(p, a.repo, a.seed, n, 16, 0)
        again = _sub(p, a.repo, a.seed, n, 16, 0)
        one_worker = _sub(p, a.repo, a.seed, n, 1, 0)
        other_hash = _sub(p, a.repo, a.seed, n, 5, 1)
        third_hash = _sub(p, a.repo, a.seed, n, 16, 12345)
        diffs = {}
        for name, other in (("same-config-again", again), ("1-worker", one_worker), ("hashseed-1/5-workers", other_hash), ("hashseed-12345", third_hash)):  # fmt: skip
            d = [k for k in base["fps"] if other["fps"].get(k) != base["fps"][k]] + [k for k in other["fps"] if k not in base["fps"]]  # fmt: skip
            diffs[name] = d
            if d:
                bad += 1
        report[p.upper()] = {"runs": base["runs"], "fingerprints": len(base["fps"]), "harness": base["harness"], "divergent": {k: v[:5] for k, v in diffs.items()}}  # fmt: skip
        print(f"selftest {p.upper()}: {len(base['fps'])} run fingerprints compared x4 configurations; divergent: { {k: len(v) for k, v in diffs.items()} }")  # fmt: skip
        if len(base["fps"]) < n * 0.9:
            print(f"HARNESS-ERROR: only {len(base['fps'])} of {n} runs reported a fingerprint", file=sys.stderr)
            bad += 1
    os.makedirs(os.path.join(VERIF, "evidence"), exist_ok=True)
    with open(os.path.join(VERIF, "evidence", "selftest.json"), "w") as f:
        json.dump({"n_per_property": n, "seed": a.seed, "report": report, "wall_s": round(time.monotonic() - t0, 1), "ok": bad == 0}, f, indent=1)  # fmt: skip
    if bad:
        print("HARNESS-ERROR: nondeterminism detected; see evidence/selftest.json", file=sys.stderr)
        return 2
    print("selftest: deterministic")
    return 0
