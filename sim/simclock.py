"""simclock: a virtual operating-system clock (DESIGN.md section 3.2).

The `time` module functions that can serve as a wall-clock source are replaced by shims that delegate to the real
functions unless a SimTime is active in this process. Repository code resolves `time.time_ns` at call time through the
module attribute, so no hook in /repo is needed.
"""

from __future__ import annotations

import time as _time

from . import simsched as _simsched

_real = {}
ACTIVE = None  # SimTime or None


class SimTime:
    def __init__(self, now_ns: int):
        self.now_ns = now_ns
        self.reads = 0
        self.read_log = []  # (function name, simulated thread index, value) in order
        self.set_log = []  # values the OS clock was set to, in order
        self.min_ns = now_ns
        self.max_ns = now_ns

    def set(self, ns: int):
        self.now_ns = ns
        self.set_log.append(ns)
        if ns < self.min_ns:
            self.min_ns = ns
        if ns > self.max_ns:
            self.max_ns = ns

    def _read(self, who):
        self.reads += 1
        sch = _simsched.ACTIVE
        cur = sch.current if sch is not None else None
        self.read_log.append((who, cur.idx if cur is not None else -1, self.now_ns))
        return self.now_ns


def install_time_shims():
    if _real:
        return
    for name in ("time_ns", "time", "clock_gettime", "clock_gettime_ns"):
        _real[name] = getattr(_time, name)

    def time_ns():
        s = ACTIVE
        if s is None:
            return _real["time_ns"]()
        return s._read("time_ns")

    def time():
        s = ACTIVE
        if s is None:
            return _real["time"]()
        return s._read("time") / 1e9

    def clock_gettime(clk):
        s = ACTIVE
        if s is None or clk != _time.CLOCK_REALTIME:
            return _real["clock_gettime"](clk)
        return s._read("clock_gettime") / 1e9

    def clock_gettime_ns(clk):
        s = ACTIVE
        if s is None or clk != _time.CLOCK_REALTIME:
            return _real["clock_gettime_ns"](clk)
        return s._read("clock_gettime_ns")

    _time.time_ns = time_ns
    _time.time = time
    _time.clock_gettime = clock_gettime
    _time.clock_gettime_ns = clock_gettime_ns


def real_time_ns():
    return (_real.get("time_ns") or _time.time_ns)()
