"""Sensitivity self-test (DESIGN.md section 9): apply each kept breaking change to a scratch copy of /repo, run the quick
check of its property against the copy, expect a VIOLATION, remove the copy.

Sources of changes: /verif/mutants/index.json (reverse patches of the repairs and hand-written ones) and
/verif/seeded/<id>/ (changes written by independent sub-agents: patch.diff + meta.json). Nothing here touches /repo.
Results go to /verif/evidence/mutants.json; a surviving change never fails a property check.
"""

from __future__ import annotations

import json
import os
import shutil
import subprocess
import sys
import tempfile
import time

VERIF = os.path.dirname(os.path.dirname(os.path.abspath(__file__)))


def catalogue():
    out = []
    idx = os.path.join(VERIF, "mutants", "index.json")
    if os.path.exists(idx):
        for e in json.load(open(idx)):
            e = dict(e)
            e["patch"] = os.path.join(VERIF, "mutants", e["file"])
            e["name"] = "mutants/" + e["file"]
            out.append(e)
    sd = os.path.join(VERIF, "seeded")
    if os.path.isdir(sd):
        for d in sorted(os.listdir(sd)):
            mp = os.path.join(sd, d, "meta.json")
            pp = os.path.join(sd, d, "patch.diff")
            if os.path.exists(mp) and os.path.exists(pp):
                m = json.load(open(mp))
                out.append({"name": "seeded/" + d, "property": m["property"], "patch": pp, "what": m.get("what", ""), "runs": m.get("runs")})
    return out


def run_one(e, repo="/repo", runs=None, baseline=False, tier="quick"):
    scratch = tempfile.mkdtemp(prefix="verif_mut_", dir=os.environ.get("VERIF_SCRATCH", "/tmp"))
    dst = os.path.join(scratch, "repo")
    t0 = time.monotonic()
    try:
        shutil.copytree(repo, dst, ignore=shutil.ignore_patterns(".git", "__pycache__", ".pytest_cache", ".mypy_cache", ".ruff_cache"))
        p = subprocess.run(["patch", "-p1", "-s", "-d", dst, "-i", e["patch"]], capture_output=True, text=True)
        if p.returncode != 0:
            return {"name": e["name"], "property": e["property"], "status": "patch-failed", "detail": (p.stdout + p.stderr)[-500:]}
        res = {"name": e["name"], "property": e["property"], "what": e.get("what", "")}
        if baseline:
            b = subprocess.run(["/venv/bin/python", "-m", "pytest", "-q", "-p", "no:cacheprovider", "--timeout=900", "--continue-on-collection-errors", "-x", "-q"],
                               cwd=dst, capture_output=True, text=True, timeout=1800)  # fmt: skip
            res["baseline_tail"] = b.stdout.strip().splitlines()[-1:] if b.stdout.strip() else []
        cmd = [sys.executable, os.path.join(VERIF, "check"), e["property"], tier, "--repo", dst, "--out", os.path.join(scratch, "out")]
        n = runs or e.get("runs")
        if n:
            cmd += ["--runs", str(n)]
        c = subprocess.run(cmd, capture_output=True, text=True, timeout=3600)
        viol = [ln for ln in c.stdout.splitlines() if ln.startswith("VIOLATION")]
        sigs = [ln.strip()[len("signature: "):] for ln in c.stdout.splitlines() if ln.strip().startswith("signature: ")]
        res.update({"exit": c.returncode, "violations": len(viol), "signatures": sigs[:6], "summary": c.stdout.strip().splitlines()[-1:] , "status": "caught" if c.returncode == 1 and viol else "MISSED" if c.returncode == 0 else "harness-error", "wall_s": round(time.monotonic() - t0, 1)})  # fmt: skip
        if c.returncode not in (0, 1):
            res["stderr"] = c.stderr[-800:]
        return res
    finally:
        shutil.rmtree(scratch, ignore_errors=True)


def main(a):
    cat = catalogue()
    if a.tier and a.tier not in ("quick", "thorough", "all"):
        cat = [e for e in cat if e["property"].lower() == a.tier.lower()]
    if a.only:
        cat = [e for e in cat if a.only in e["name"]]
    results = []
    for e in cat:
        r = run_one(e, a.repo, a.runs)
        results.append(r)
        print(f"{r['status']:14s} {r['property']} {r['name']}  {r.get('signatures', [''])[:1]} {r.get('wall_s', '')}s")
    path = os.path.join(VERIF, "evidence", "mutants.json")
    old = {}
    if os.path.exists(path):
        try:
            old = {r["name"]: r for r in json.load(open(path))["results"]}
        except Exception:  # noqa: BLE001
            old = {}
    for r in results:
        old[r["name"]] = r
    os.makedirs(os.path.dirname(path), exist_ok=True)
    with open(path, "w") as f:
        json.dump({"results": sorted(old.values(), key=lambda r: r["name"])}, f, indent=1)
    missed = [r for r in results if r["status"] != "caught"]
    print(f"mutants: {len(results) - len(missed)}/{len(results)} caught")
    return 0
