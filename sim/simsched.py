"""simsched: one-integer deterministic scheduling of real threads (DESIGN.md section 3.1).

Real `threading.Thread`s run the repository's synchronous code; exactly one of them holds the *baton* at any time.
Scheduling points are sys.settrace call/line events in frames whose code lives under the repository package, plus every
SimLock acquire/release. At each point the running thread asks the strategy (seeded PRNG, or a scripted schedule on
replay) who runs next, opens that thread's gate and parks on its own. The OS scheduler never chooses.

A run that cannot continue (deadlock, step cap) is *aborted*: the detecting thread records why, wakes the main thread
and parks forever; runs happen in forked children that os._exit afterwards, so nothing is unwound.
"""

from __future__ import annotations

import _thread
import gc
import os
import sys
import threading
import zlib

_allocate = _thread.allocate_lock
_get_ident = _thread.get_ident

ACTIVE = None  # the Scheduler of the run in progress in this process, if any
USE_MONITORING = os.environ.get("VERIF_TRACER", "monitoring") != "settrace"
_PKG_PREFIX = "\0"
M64 = (1 << 64) - 1


# ---------------------------------------------------------------------------------------------------------------------
# SimLock


class SimLock:
    """Stand-in for threading.Lock. Outside a simulation it is a plain lock; inside, the scheduler owns blocking."""

    created = 0
    __slots__ = ("_real", "owner", "waiters", "site", "n_acquired", "n_contended")

    def __init__(self, site="?"):
        self._real = _allocate()
        self.owner = None
        self.waiters = []
        self.site = site
        self.n_acquired = 0
        self.n_contended = 0
        SimLock.created += 1

    def acquire(self, blocking=True, timeout=-1):
        s = ACTIVE
        if s is not None and s.running:
            t = s.current
            if t is not None and t.ident == _get_ident():
                return s.lock_acquire(self, t, blocking)
        return self._real.acquire(blocking, timeout)

    def release(self):
        s = ACTIVE
        if s is not None and s.running:
            t = s.current
            if t is not None and t.ident == _get_ident():
                return s.lock_release(self, t)
        return self._real.release()

    def locked(self):
        return self.owner is not None or self._real.locked()

    def __enter__(self):
        self.acquire()
        return True

    def __exit__(self, *a):
        self.release()

    def __repr__(self):
        return f"<SimLock {self.site} owner={getattr(self.owner, 'idx', None)}>"


def install_lock_shim(pkg_prefix: str):
    """Replace threading.Lock by a factory: SimLock for callers inside the repository package, real lock otherwise."""
    global _PKG_PREFIX
    _PKG_PREFIX = pkg_prefix
    if getattr(threading.Lock, "_verif_shim", False):
        return

    def Lock():  # noqa: N802 - mimics threading.Lock
        f = sys._getframe(1)
        fn = f.f_code.co_filename
        if fn.startswith(_PKG_PREFIX):
            return SimLock(f"{fn[len(_PKG_PREFIX):]}:{f.f_code.co_name}")
        return _allocate()

    Lock._verif_shim = True
    threading.Lock = Lock


# ---------------------------------------------------------------------------------------------------------------------
# strategies


class Strategy:
    name = "?"

    def setup(self, sched):
        pass

    def decide(self, s, t, hot):  # voluntary point; return SimThread to switch to, or None
        return None

    def pick(self, s, t, runnable):  # forced point (t blocked / finished / start); must return one of runnable
        return runnable[0]


class Serial(Strategy):
    name = "serial"

    def __init__(self, rng, order="index"):
        self.rng = rng
        self.order = order

    def pick(self, s, t, runnable):
        if self.order == "random":
            return self.rng.choice(runnable)
        return runnable[0]


class Uniform(Strategy):
    name = "uniform"

    def __init__(self, rng, p):
        self.rng = rng
        self.p = p

    def decide(self, s, t, hot):
        if self.rng.random() < self.p:
            c = s.runnable_except(t)
            if c:
                return self.rng.choice(c)
        return None

    def pick(self, s, t, runnable):
        return self.rng.choice(runnable)


class Biased(Strategy):
    """High switch probability while the running code is in an inventory ('hot') file, low elsewhere."""

    name = "biased"

    def __init__(self, rng, p_hot, p_cold):
        self.rng = rng
        self.p_hot = p_hot
        self.p_cold = p_cold

    def decide(self, s, t, hot):
        if self.rng.random() < (self.p_hot if hot else self.p_cold):
            c = s.runnable_except(t)
            if c:
                return self.rng.choice(c)
        return None

    def pick(self, s, t, runnable):
        return self.rng.choice(runnable)


class PCT(Strategy):
    """PCT-style: random priorities, d priority-change points at random step indices."""

    name = "pct"

    def __init__(self, rng, d, horizon):
        self.rng = rng
        self.d = d
        self.horizon = horizon

    def setup(self, s):
        n = len(s.threads)
        pr = list(range(self.d + 1, self.d + 1 + n))
        self.rng.shuffle(pr)
        for t, p in zip(s.threads, pr):
            t.prio = p
        self.changes = {}
        for i in range(self.d):
            self.changes[self.rng.randrange(1, max(2, self.horizon))] = self.d - i

    def decide(self, s, t, hot):
        low = self.changes.get(s.steps)
        if low is not None:
            t.prio = low
        best = t
        for x in s.threads:
            if x.state == 1 and x.prio > best.prio:
                best = x
        return None if best is t else best

    def pick(self, s, t, runnable):
        return max(runnable, key=lambda x: x.prio)


class Scripted(Strategy):
    """Replay: switches given explicitly as {(thread, op, event): next_thread}; default = stay / lowest index."""

    name = "scripted"

    def __init__(self, switches):
        self.table = {(a, b, c): d for a, b, c, d in switches}
        self.used = 0

    def decide(self, s, t, hot):
        n = self.table.get((t.idx, t.op, t.ev))
        if n is not None:
            x = s.threads[n] if 0 <= n < len(s.threads) else None
            if x is not None and x.state == 1 and x is not t:
                self.used += 1
                return x
        return None

    def pick(self, s, t, runnable):
        if t is None:
            n = self.table.get((-1, 0, 0))
        else:
            n = self.table.get((t.idx, t.op, t.ev))
        if n is not None:
            for x in runnable:
                if x.idx == n:
                    self.used += 1
                    return x
        return runnable[0]


def make_strategy(spec, rng):
    k = spec["kind"]
    if k == "serial":
        return Serial(rng, spec.get("order", "index"))
    if k == "uniform":
        return Uniform(rng, spec["p"])
    if k == "biased":
        return Biased(rng, spec["p_hot"], spec["p_cold"])
    if k == "pct":
        return PCT(rng, spec["d"], spec["horizon"])
    if k == "scripted":
        return Scripted(spec["switches"])
    raise ValueError(k)


# ---------------------------------------------------------------------------------------------------------------------
# scheduler


class SimThread:
    __slots__ = ("idx", "gate", "state", "blocked_on", "op", "ev", "op_steps", "ident", "body", "prio", "ready", "thread", "parked_in")

    # state: 0 new, 1 runnable, 2 blocked, 3 done
    def __init__(self, idx, body):
        self.idx = idx
        self.gate = _allocate()
        self.gate.acquire()
        self.ready = _allocate()
        self.ready.acquire()
        self.state = 1
        self.blocked_on = None
        self.op = 0
        self.ev = 0
        self.op_steps = 0
        self.ident = None
        self.body = body
        self.prio = 0
        self.thread = None
        self.parked_in = None


class Scheduler:
    def __init__(self, strategy, max_steps=2_000_000, max_op_steps=None, hot_files=(), record_trace=False, coarse_files=()):
        self.strategy = strategy
        self.max_steps = max_steps
        self.max_op_steps = max_op_steps
        self.hot_files = tuple(hot_files)
        # frames of these files get no line tracing and are no scheduling points: pure decoding routines that only touch
        # thread-private data, so a pre-emption inside them is equivalent to one just before or after (partial-order reduction)
        self.coarse_files = tuple(coarse_files)
        self.threads = []
        self.current = None
        self.running = False
        self.steps = 0
        self.seq = 0  # history event sequence (invoke/return stamps)
        self.digest = 1469598103934665603
        self.switches = []  # [thread, op, ev, next]
        self.n_voluntary = 0
        self.n_forced = 0
        self.hot_switches = 0
        self.same_function_overlap = 0
        self.switch_holding_lock = 0
        self.blocked_events = 0
        self.aborted = None
        self.abort_info = None
        self.main_gate = _allocate()
        self.main_gate.acquire()
        self.codes = {}
        self.record_trace = record_trace
        self.trace = [] if record_trace else None
        self.locks_held = 0
        self.on_point = None  # optional probe callback(code, lineno)
        self.on_acquire = None  # optional callback(lock, thread) after a simulated thread took a SimLock
        self._mode = 2

    # -- construction
    def add_thread(self, body):
        t = SimThread(len(self.threads), body)
        self.threads.append(t)
        return t

    def runnable_except(self, t):
        return [x for x in self.threads if x.state == 1 and x is not t]

    # -- history stamps
    def stamp(self):
        self.seq += 1
        return self.seq

    # -- tracing
    def _classify(self, code):
        fn = code.co_filename
        if fn.startswith(_PKG_PREFIX):
            rel = fn[len(_PKG_PREFIX):]
            if rel in self.coarse_files:
                self.codes[code] = False
                return False
            cid = zlib.crc32((rel + ":" + code.co_name).encode()) & 0xFFFFF
            info = (cid, rel in self.hot_files or rel.rsplit("/", 1)[-1] in self.hot_files, rel)
        else:
            info = False
        self.codes[code] = info
        return info

    def _global_tracer(self, frame, event, arg):
        code = frame.f_code
        info = self.codes.get(code)
        if info is None:
            info = self._classify(code)
        if info is False:
            return None
        if self.running:
            self._point(self.current, info, frame.f_lineno)
        return self._local_tracer

    def _local_tracer(self, frame, event, arg):
        # hot path: one call per executed line of repository code; _point is inlined for the common strategies
        if event != "line" or not self.running:
            return self._local_tracer
        info = self.codes[frame.f_code]
        t = self.current
        mode = self._mode
        if mode == 2:
            self._point(t, info, frame.f_lineno)
            return self._local_tracer
        steps = self.steps = self.steps + 1
        t.ev += 1
        t.op_steps += 1
        self.digest = ((self.digest ^ ((t.idx << 44) | (info[0] << 20) | frame.f_lineno)) * 1099511628211) & M64
        if steps > self.max_steps:
            self._abort("step-cap", t)
        if mode == 1 and self._rand() < (self._p_hot if info[1] else self._p_cold):
            c = [x for x in self.threads if x.state == 1 and x is not t]
            if c:
                self._voluntary(t, self.strategy.rng.choice(c), info)
        return self._local_tracer

    def _setup_fast_path(self):
        """mode 0: strategy never pre-empts (serial); 1: Bernoulli per point (uniform/biased); 2: generic (everything else,
        or when tracing / probes / per-op caps are on). The PRNG draw sequence is identical to the generic path."""
        st = self.strategy
        self._mode = 2
        if self.trace is not None or self.on_point is not None or self.max_op_steps is not None:
            return
        if isinstance(st, Serial):
            self._mode = 0
        elif isinstance(st, Uniform):
            self._mode, self._p_hot, self._p_cold, self._rand = 1, st.p, st.p, st.rng.random
        elif isinstance(st, Biased):
            self._mode, self._p_hot, self._p_cold, self._rand = 1, st.p_hot, st.p_cold, st.rng.random

    # -- scheduling points
    def _point(self, t, info, lineno):
        self.steps += 1
        t.ev += 1
        t.op_steps += 1
        self.digest = ((self.digest ^ ((t.idx << 44) | (info[0] << 20) | lineno)) * 1099511628211) & M64
        if self.trace is not None:
            self.trace.append((t.idx, info[2], lineno))
        if self.steps > self.max_steps:
            self._abort("step-cap", t)
        if self.max_op_steps is not None and t.op_steps > self.max_op_steps:
            self._abort("op-step-cap", t)
        if self.on_point is not None:
            self.on_point(t, info, lineno)
        n = self.strategy.decide(self, t, info[1])
        if n is not None:
            self._voluntary(t, n, info)

    def _voluntary(self, t, n, info):
        self.n_voluntary += 1
        if info[1]:
            self.hot_switches += 1
            if info[2] != "<lock>":
                # probe: is another live thread parked inside the same function of an inventory file?
                f = info[0]
                for x in self.threads:
                    if x is not t and x.state != 3 and x.parked_in == f:
                        self.same_function_overlap += 1
                        break
                t.parked_in = f
            else:
                t.parked_in = None
        else:
            t.parked_in = None
        if self.locks_held:
            self.switch_holding_lock += 1
        self._switch(t, n)

    _LOCK_INFO = (0xFFFFF, True, "<lock>")

    def _switch(self, t, n):
        self.switches.append([t.idx, t.op, t.ev, n.idx])
        self.current = n
        n.gate.release()
        t.gate.acquire()
        # resumed: we hold the baton again

    def _forced(self, t):
        """t cannot continue (blocked or done). Hand the baton on, or end/abort the run."""
        runnable = [x for x in self.threads if x.state == 1]
        if not runnable:
            if all(x.state == 3 for x in self.threads):
                self._finish_run()
                return False
            self._abort("deadlock", t)
        n = self.strategy.pick(self, t, runnable)
        self.n_forced += 1
        self.switches.append([t.idx, t.op, t.ev, n.idx])
        self.current = n
        n.gate.release()
        return True

    def _finish_run(self):
        self.running = False
        self.current = None
        self.main_gate.release()

    def _abort(self, reason, t):
        self.aborted = reason
        info = {"reason": reason, "at_thread": t.idx, "op": t.op, "threads": []}
        frames = sys._current_frames()
        for x in self.threads:
            ent = {"idx": x.idx, "state": x.state, "op": x.op}
            if x.blocked_on is not None:
                ent["blocked_on"] = x.blocked_on.site
                ent["owner"] = getattr(x.blocked_on.owner, "idx", None)
            fr = frames.get(x.ident)
            stack = []
            while fr is not None:
                fn = fr.f_code.co_filename
                if fn.startswith(_PKG_PREFIX):
                    stack.append(f"{fn[len(_PKG_PREFIX):]}:{fr.f_code.co_name}:{fr.f_lineno}")
                fr = fr.f_back
            ent["stack"] = stack[:8]
            info["threads"].append(ent)
        self.abort_info = info
        self.running = False
        self.main_gate.release()
        # park forever; the process is a forked child that will _exit
        dead = _allocate()
        dead.acquire()
        dead.acquire()

    def yield_point(self):
        """Explicit scheduling point for harness actors (e.g. the OS-clock driver) between their atomic steps."""
        self._point(self.current, self._LOCK_INFO, 3)

    # -- locks
    def lock_acquire(self, lock, t, blocking):
        self._point(t, self._LOCK_INFO, 1)
        while lock.owner is not None:
            if not blocking:
                return False
            lock.n_contended += 1
            self.blocked_events += 1
            t.state = 2
            t.blocked_on = lock
            lock.waiters.append(t)
            t.ev += 1
            self.steps += 1
            if self._forced(t):
                t.gate.acquire()
        lock.owner = t
        lock.n_acquired += 1
        self.locks_held += 1
        if self.on_acquire is not None:
            self.on_acquire(lock, t)
        return True

    def lock_release(self, lock, t):
        if lock.owner is None:
            raise RuntimeError("release unlocked lock")
        lock.owner = None
        self.locks_held -= 1
        for w in lock.waiters:
            w.state = 1
            w.blocked_on = None
        lock.waiters.clear()
        self._point(t, self._LOCK_INFO, 2)

    # -- sys.monitoring variant of the tracer (default): LINE and PY_START events, disabled per code location for
    #    everything that is not repository code, so foreign frames cost nothing after their first event
    MON_TOOL = 3

    def _mon_start(self, code, offset):
        info = self.codes.get(code)
        if info is None:
            info = self._classify(code)
        if info is False:
            return sys.monitoring.DISABLE
        if self.running:
            t = self.current
            if t is not None and t.ident == _get_ident():
                self._point(t, info, code.co_firstlineno)
        return None

    def _mon_line(self, code, lineno):
        # hot path: one call per executed line of repository code
        info = self.codes.get(code)
        if info is None:
            info = self._classify(code)
        if info is False:
            return sys.monitoring.DISABLE
        if not self.running:
            return None
        t = self.current
        if t is None or t.ident != _get_ident():
            return None
        mode = self._mode
        if mode == 2:
            self._point(t, info, lineno)
            return None
        steps = self.steps = self.steps + 1
        t.ev += 1
        t.op_steps += 1
        self.digest = ((self.digest ^ ((t.idx << 44) | (info[0] << 20) | lineno)) * 1099511628211) & M64
        if steps > self.max_steps:
            self._abort("step-cap", t)
        if mode == 1 and self._rand() < (self._p_hot if info[1] else self._p_cold):
            c = [x for x in self.threads if x.state == 1 and x is not t]
            if c:
                self._voluntary(t, self.strategy.rng.choice(c), info)
        return None

    def _mon_install(self):
        m = sys.monitoring
        m.use_tool_id(self.MON_TOOL, "verif-simsched")
        m.register_callback(self.MON_TOOL, m.events.PY_START, self._mon_start)
        m.register_callback(self.MON_TOOL, m.events.LINE, self._mon_line)
        m.set_events(self.MON_TOOL, m.events.PY_START | m.events.LINE)

    def _mon_remove(self):
        m = sys.monitoring
        m.set_events(self.MON_TOOL, 0)
        m.register_callback(self.MON_TOOL, m.events.PY_START, None)
        m.register_callback(self.MON_TOOL, m.events.LINE, None)
        m.free_tool_id(self.MON_TOOL)

    # -- thread body wrapper
    def _thread_main(self, t):
        t.ident = _get_ident()
        t.ready.release()
        t.gate.acquire()
        if not USE_MONITORING:
            sys.settrace(self._global_tracer)
        try:
            t.body(self, t)
        finally:
            if not USE_MONITORING:
                sys.settrace(None)
        t.state = 3
        t.op = -1  # coordinates of the 'thread finished' hand-over: (idx, -1, 0)
        t.ev = 0
        self._forced(t)

    def run(self):
        global ACTIVE
        if not self.threads:
            return
        ACTIVE = self
        gc_was = gc.isenabled()
        gc.disable()
        try:
            for t in self.threads:
                th = threading.Thread(target=self._thread_main, args=(t,), name=f"sim-{t.idx}", daemon=True)
                t.thread = th
                th.start()
                t.ready.acquire()
            self.strategy.setup(self)
            self._setup_fast_path()
            if USE_MONITORING:
                self._mon_install()
            first = self.strategy.pick(self, None, list(self.threads))
            self.switches.append([-1, 0, 0, first.idx])
            self.current = first
            self.running = True
            first.gate.release()
            self.main_gate.acquire()
            if self.aborted is None:
                for t in self.threads:
                    t.thread.join()
        finally:
            self.running = False
            if USE_MONITORING:
                try:
                    self._mon_remove()
                except Exception:  # noqa: BLE001
                    pass
            ACTIVE = None
            if gc_was:
                gc.enable()

    def summary(self):
        return {
            "steps": self.steps,
            "digest": f"{self.digest:016x}",
            "switches": len(self.switches),
            "voluntary": self.n_voluntary,
            "forced": self.n_forced,
            "hot_switches": self.hot_switches,
            "switch_holding_lock": self.switch_holding_lock,
            "same_function_overlap": self.same_function_overlap,
            "blocked_events": self.blocked_events,
            "aborted": self.aborted,
        }
