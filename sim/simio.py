"""simio: fault-injecting input stream, framing scanner, deterministic work budget (DESIGN.md section 3.3)."""

from __future__ import annotations

import sys


# ---------------------------------------------------------------------------------------------------------------------
# fault plans: expressed against the intact file, so a replay file is (file, [faults])


def apply_plan(data: bytes, plan) -> bytes:
    """plan: list of ["trunc", t] | ["sub", off, byte] | ["ins", off, byte] | ["del", off]; offsets refer to the intact
    file. Edits at or beyond the truncation point are dropped; edits are applied from the highest offset down so that
    earlier offsets stay valid."""
    t = len(data)
    edits = []
    for f in plan:
        if f[0] == "trunc":
            t = min(t, f[1])
        else:
            edits.append(f)
    b = bytearray(data[:t])
    for f in sorted(edits, key=lambda f: (-f[1], f[0])):
        off = f[1]
        if f[0] == "sub":
            if off < len(b):
                b[off] = f[2]
        elif f[0] == "ins":
            if off <= len(b):
                b.insert(off, f[2])
        elif f[0] == "del":
            if off < len(b):
                del b[off]
    return bytes(b)


def plan_is_effective(data: bytes, plan) -> bool:
    return apply_plan(data, plan) != data


class SimStream:
    """Read side of a BinaryIO with io.BufferedIOBase semantics: a short result only at end of data."""

    def __init__(self, data: bytes):
        self._data = data
        self._pos = 0
        self.read_calls = 0
        self.bytes_read = 0
        self.eof_hits = 0
        self.closed = False

    def readable(self):
        return True

    def read(self, n=-1):
        self.read_calls += 1
        if n is None or n < 0:
            n = len(self._data) - self._pos
        b = self._data[self._pos : self._pos + n]
        self._pos += len(b)
        self.bytes_read += len(b)
        if len(b) < n or (n > 0 and not b):
            self.eof_hits += 1
        return b

    def tell(self):
        return self._pos

    def close(self):
        self.closed = True

    def __enter__(self):
        return self

    def __exit__(self, *a):
        self.close()


# ---------------------------------------------------------------------------------------------------------------------
# framing scanner (knows the container framing and the string pool, nothing about zone bodies)


def _varint(data, i):
    ret = 0
    shift = 0
    while True:
        if i >= len(data):
            raise ValueError("varint runs off the end")
        b = data[i]
        i += 1
        ret += (b & 0x7F) << shift
        shift += 7
        if b < 0x80:
            return ret, i


def scan_fields(data: bytes):
    """-> list of dicts {id, start, len_start, data_start, end}; stops quietly at the first framing inconsistency."""
    out = []
    i = 4
    while i < len(data):
        start = i
        fid = data[i]
        try:
            ln, j = _varint(data, i + 1)
        except ValueError:
            break
        if j + ln > len(data):
            break
        out.append({"id": fid, "start": start, "len_start": start + 1, "data_start": j, "end": j + ln})
        i = j + ln
    return out


def scan_string_pool(data: bytes, field):
    i = field["data_start"]
    n, i = _varint(data, i)
    pool = []
    spans = []
    for _ in range(n):
        ln, j = _varint(data, i)
        pool.append(data[j : j + ln].decode("utf-8", "replace"))
        spans.append((i, j + ln))
        i = j + ln
    return pool, spans


def scan_zones(data: bytes):
    """-> (fields, zone_index {zone id: field}, pool). Framing only."""
    fields = scan_fields(data)
    pool = []
    for f in fields:
        if f["id"] == 0:
            pool, _ = scan_string_pool(data, f)
            break
    zones = {}
    for f in fields:
        if f["id"] == 1:
            idx, j = _varint(data, f["data_start"])
            if idx < len(pool):
                f["zone"] = pool[idx]
                f["body_start"] = j
                zones[pool[idx]] = f
    return fields, zones, pool


def scan_id_map(data: bytes, fields, pool):
    """Entries of the TZDB_ID_MAP field (a count, then pairs of string references: alias -> target).
    -> list of dicts {k0, k1, v0, v1, key, val} with byte spans of the two references."""
    out = []
    for f in fields:
        if f["id"] != 3:
            continue
        try:
            i = f["data_start"]
            n, i = _varint(data, i)
            for _ in range(n):
                k, j = _varint(data, i)
                v, j2 = _varint(data, j)
                if j2 > f["end"]:
                    break
                out.append({"k0": i, "k1": j, "v0": j, "v1": j2, "key": pool[k] if k < len(pool) else None, "val": pool[v] if v < len(pool) else None})  # fmt: skip
                i = j2
        except ValueError:
            pass
        break
    return out


def scan_nested_counts(data: bytes, fields):
    """Counts nested inside the metadata fields, with the byte span of the items they announce. Every string in these fields
    is a string-pool reference, so the fields are plain sequences of varints:
      field 4 (windows zones): ref ref ref count { ref ref count { ref }* }*
      field 7 (zone-1970 locations): count { varint varint count { ref ref }* ref ref }*
    -> list of dicts {field, off (of the count), items_end (end of the items it announces), n}"""
    out = []
    for f in fields:
        try:
            i, end = f["data_start"], f["end"]
            if f["id"] == 4:
                for _ in range(3):
                    _, i = _varint(data, i)
                n, i = _varint(data, i)
                for _ in range(n):
                    _, i = _varint(data, i)
                    _, i = _varint(data, i)
                    c_off = i
                    c, i = _varint(data, i)
                    for _ in range(c):
                        _, i = _varint(data, i)
                    if i > end:
                        break
                    out.append({"field": 4, "off": c_off, "items_end": i, "n": c})
            elif f["id"] == 7:
                n, i = _varint(data, i)
                for _ in range(n):
                    _, i = _varint(data, i)
                    _, i = _varint(data, i)
                    c_off = i
                    c, i = _varint(data, i)
                    for _ in range(2 * c):
                        _, i = _varint(data, i)
                    items_end = i
                    _, i = _varint(data, i)
                    _, i = _varint(data, i)
                    if i > end:
                        break
                    out.append({"field": 7, "off": c_off, "items_end": items_end, "n": c})
        except ValueError:
            pass
    return out


# ---------------------------------------------------------------------------------------------------------------------
# deterministic work budget: count function entries and loop back-edges with sys.monitoring


class BudgetExceeded(BaseException):
    pass


class WorkMeter:
    """Counts PY_START + JUMP events while active. `limit` (if set) aborts the measured code by raising BudgetExceeded
    from the callback. The count is a pure function of code, input and cache warmth - no clock involved."""

    TOOL = 4  # a free tool id (0-5 are named debugger/coverage/profiler/optimizer slots; 4 is unassigned)

    def __init__(self):
        self.count = 0
        self.limit = None
        self.on = False
        self._mon = sys.monitoring

    def install(self):
        m = self._mon
        m.use_tool_id(self.TOOL, "verif-workmeter")
        m.register_callback(self.TOOL, m.events.PY_START, self._cb2)
        m.register_callback(self.TOOL, m.events.JUMP, self._cb3)

    def _cb2(self, code, off):
        self.count += 1
        if self.limit is not None and self.count > self.limit:
            self.limit = None
            raise BudgetExceeded()

    def _cb3(self, code, off, dest):
        self.count += 1
        if self.limit is not None and self.count > self.limit:
            self.limit = None
            raise BudgetExceeded()

    def start(self, limit=None):
        self.count = 0
        self.limit = limit
        m = self._mon
        m.set_events(self.TOOL, m.events.PY_START | m.events.JUMP)
        self.on = True

    def stop(self):
        m = self._mon
        m.set_events(self.TOOL, 0)
        self.on = False
        self.limit = None
        return self.count
