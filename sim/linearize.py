"""Wing-Gong linearizability search with memoisation, against a small sequential model.

history: list of events (inv_seq, ret_seq, op, result); stamps come from the scheduler's global event counter, so there
are no ties. `apply(state, op, result)` returns the successor state if `result` is what the model would answer in
`state`, else None. States must be hashable.
"""

from __future__ import annotations


def check(history, init_state, apply, max_nodes=2_000_000):
    """Returns (ok, info). ok is True / False / None (None = search budget exhausted: inconclusive)."""
    n = len(history)
    if n == 0:
        return True, {"nodes": 0, "order": []}
    inv = [h[0] for h in history]
    ret = [h[1] for h in history]
    full = (1 << n) - 1
    seen = set()
    nodes = 0
    # iterative DFS; stack entries: (mask, state, order_tuple)
    stack = [(0, init_state, ())]
    best = ()
    while stack:
        mask, state, order = stack.pop()
        if mask == full:
            return True, {"nodes": nodes, "order": list(order)}
        key = (mask, state)
        if key in seen:
            continue
        seen.add(key)
        nodes += 1
        if nodes > max_nodes:
            return None, {"nodes": nodes, "order": list(best)}
        if len(order) > len(best):
            best = order
        # minimal return among remaining ops: an op may go first only if it was invoked before that
        min_ret = None
        for i in range(n):
            if not (mask >> i) & 1:
                if min_ret is None or ret[i] < min_ret:
                    min_ret = ret[i]
        for i in range(n - 1, -1, -1):
            if (mask >> i) & 1 or inv[i] > min_ret:
                continue
            ns = apply(state, history[i][2], history[i][3])
            if ns is not None:
                stack.append((mask | (1 << i), ns, order + (i,)))
    return False, {"nodes": nodes, "order": list(best)}
