#!/bin/bash
# usage: tools_seeded.sh <agent-name e.g. c13a> <PROPERTY> <seeded-id>
# Confirms an independently written breaking change: demo passes without it, fails with it, baseline and full suite still pass.
set -u
A=$1; P=$2; ID=$3
OUT=/tmp/agent_$A.out
W=/tmp/seedchk_$A
ICU=/root/miniconda/pkgs/icu-73.1-h6a678d5_0/lib
git -C /repo worktree remove --force $W 2>/dev/null
git -C /repo worktree add -q --detach $W HEAD || exit 2
cp $OUT/demo.py $W/demo_seed.py
cd $W
LD_LIBRARY_PATH=$ICU timeout 600 /venv/bin/python demo_seed.py > /tmp/seedchk_$A.clean.log 2>&1; CLEAN=$?
git apply $OUT/patch.diff || { echo "PATCH FAILED"; exit 2; }
BASE=$(/venv/bin/python -m pytest -q -p no:cacheprovider --timeout=900 --continue-on-collection-errors 2>&1 | tail -1)
FULL=$(LD_LIBRARY_PATH=$ICU timeout 1500 /venv/bin/python -m pytest -q -p no:cacheprovider -n 8 2>&1 | tail -1)
LD_LIBRARY_PATH=$ICU timeout 600 /venv/bin/python demo_seed.py > /tmp/seedchk_$A.mut.log 2>&1; MUT=$?
echo "demo clean exit=$CLEAN  demo mutated exit=$MUT"
echo "baseline: $BASE"
echo "full:     $FULL"
tail -3 /tmp/seedchk_$A.mut.log
cd /verif
git -C /repo worktree remove --force $W
if [ $CLEAN -eq 0 ] && [ $MUT -ne 0 ] && echo "$BASE" | grep -q "393 passed" && echo "$FULL" | grep -q "10356 passed"; then
  mkdir -p /verif/seeded/$ID
  cp $OUT/patch.diff /verif/seeded/$ID/patch.diff
  cp $OUT/demo.py /verif/seeded/$ID/demo.py
  cp $OUT/notes.md /verif/seeded/$ID/notes.md 2>/dev/null
  echo "CONFIRMED -> /verif/seeded/$ID"
else
  echo "NOT CONFIRMED"
fi
